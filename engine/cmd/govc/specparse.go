package main

import (
	"fmt"
	"strings"
	"unicode"
)

// ---- spec expression AST ----

type SExpr struct {
	Kind string // ident, int, str, bool, nil, unary, binary, call, index, slice, field, is, assert, quant, old, ite, paren
	Op   string
	Name string
	Args []*SExpr
	Type *STypeExpr   // for is / assert / quant binder types
	Binders []Binder
	Pos  int
}

type Binder struct {
	Name string
	Type *STypeExpr
}

// STypeExpr is a syntactic Go-like type.
type STypeExpr struct {
	Kind string // name, ptr, slice, map, qual
	Name string
	Pkg  string
	Elem *STypeExpr
	Key  *STypeExpr
}

func (t *STypeExpr) String() string {
	switch t.Kind {
	case "name":
		return t.Name
	case "qual":
		return t.Pkg + "." + t.Name
	case "ptr":
		return "*" + t.Elem.String()
	case "slice":
		return "[]" + t.Elem.String()
	case "map":
		return "map[" + t.Key.String() + "]" + t.Elem.String()
	}
	return "?"
}

type tok struct {
	k   string // ident, int, str, op, eof
	s   string
	pos int
}

func lexSpec(src string) ([]tok, error) {
	var out []tok
	i := 0
	for i < len(src) {
		c := src[i]
		switch {
		case c == ' ' || c == '\t' || c == '\n':
			i++
		case unicode.IsLetter(rune(c)) || c == '_':
			j := i
			for j < len(src) && (unicode.IsLetter(rune(src[j])) || unicode.IsDigit(rune(src[j])) || src[j] == '_' || src[j] == '#') {
				j++
			}
			out = append(out, tok{"ident", src[i:j], i})
			i = j
		case unicode.IsDigit(rune(c)):
			j := i
			if strings.HasPrefix(src[i:], "0x") {
				j += 2
				for j < len(src) && strings.ContainsRune("0123456789abcdefABCDEF", rune(src[j])) {
					j++
				}
			} else {
				for j < len(src) && unicode.IsDigit(rune(src[j])) {
					j++
				}
			}
			out = append(out, tok{"int", src[i:j], i})
			i = j
		case c == '"':
			j := i + 1
			for j < len(src) && src[j] != '"' {
				if src[j] == '\\' {
					j++
				}
				j++
			}
			if j >= len(src) {
				return nil, fmt.Errorf("unterminated string at %d", i)
			}
			out = append(out, tok{"str", src[i+1 : j], i})
			i = j + 1
		case c == '\'':
			if i+2 < len(src) && src[i+2] == '\'' {
				out = append(out, tok{"int", fmt.Sprintf("%d", src[i+1]), i})
				i += 3
			} else {
				return nil, fmt.Errorf("bad char literal at %d", i)
			}
		default:
			ops := []string{"<==>", "==>", "::", "==", "!=", "<=", ">=", "&&", "||", "&", "!in", ".(", "<", ">", "+", "-", "*", "/", "%", "!", "(", ")", "[", "]", ".", ",", ":", "?"}
			matched := false
			for _, o := range ops {
				if strings.HasPrefix(src[i:], o) {
					out = append(out, tok{"op", o, i})
					i += len(o)
					matched = true
					break
				}
			}
			if !matched {
				return nil, fmt.Errorf("unexpected character %q at %d in %q", c, i, src)
			}
		}
	}
	out = append(out, tok{"eof", "", len(src)})
	return out, nil
}

type sparser struct {
	toks []tok
	i    int
	src  string
}

func parseSpecExpr(src string) (e *SExpr, err error) {
	toks, err := lexSpec(src)
	if err != nil {
		return nil, err
	}
	p := &sparser{toks: toks, src: src}
	defer func() {
		if r := recover(); r != nil {
			if s, ok := r.(specErr); ok {
				err = fmt.Errorf("%s in %q", string(s), src)
				return
			}
			panic(r)
		}
	}()
	e = p.expr()
	if p.peek().k != "eof" {
		p.fail("unexpected token %q", p.peek().s)
	}
	return e, nil
}

type specErr string

func (p *sparser) fail(f string, a ...any) { panic(specErr(fmt.Sprintf(f, a...) + fmt.Sprintf(" at %d", p.peek().pos))) }
func (p *sparser) peek() tok              { return p.toks[p.i] }
func (p *sparser) next() tok              { t := p.toks[p.i]; p.i++; return t }
func (p *sparser) isOp(s string) bool     { t := p.peek(); return t.k == "op" && t.s == s }
func (p *sparser) isIdent(s string) bool  { t := p.peek(); return t.k == "ident" && t.s == s }
func (p *sparser) expectOp(s string) {
	if !p.isOp(s) {
		p.fail("expected %q, got %q", s, p.peek().s)
	}
	p.next()
}

func (p *sparser) expr() *SExpr {
	if p.isIdent("forall") || p.isIdent("exists") {
		q := p.next().s
		var bs []Binder
		for {
			n := p.next()
			if n.k != "ident" {
				p.fail("binder name expected")
			}
			ty := p.typeExpr()
			bs = append(bs, Binder{n.s, ty})
			if p.isOp(",") {
				p.next()
				continue
			}
			break
		}
		p.expectOp("::")
		body := p.expr()
		return &SExpr{Kind: "quant", Op: q, Binders: bs, Args: []*SExpr{body}}
	}
	return p.iff()
}

func (p *sparser) iff() *SExpr {
	l := p.impl()
	for p.isOp("<==>") {
		p.next()
		r := p.impl()
		l = &SExpr{Kind: "binary", Op: "<==>", Args: []*SExpr{l, r}}
	}
	return l
}

func (p *sparser) impl() *SExpr {
	l := p.cond()
	if p.isOp("==>") {
		p.next()
		var r *SExpr
		if p.isIdent("forall") || p.isIdent("exists") {
			r = p.expr()
		} else {
			r = p.impl()
		}
		return &SExpr{Kind: "binary", Op: "==>", Args: []*SExpr{l, r}}
	}
	return l
}

func (p *sparser) cond() *SExpr {
	c := p.or()
	if p.isOp("?") {
		p.next()
		a := p.cond()
		p.expectOp(":")
		b := p.cond()
		return &SExpr{Kind: "ite", Args: []*SExpr{c, a, b}}
	}
	return c
}

func (p *sparser) or() *SExpr {
	l := p.and()
	for p.isOp("||") {
		p.next()
		r := p.and()
		l = &SExpr{Kind: "binary", Op: "||", Args: []*SExpr{l, r}}
	}
	return l
}

func (p *sparser) and() *SExpr {
	l := p.cmp()
	for p.isOp("&&") {
		p.next()
		var r *SExpr
		if p.isIdent("forall") || p.isIdent("exists") {
			r = p.expr()
		} else {
			r = p.cmp()
		}
		l = &SExpr{Kind: "binary", Op: "&&", Args: []*SExpr{l, r}}
	}
	return l
}

func (p *sparser) cmp() *SExpr {
	l := p.add()
	for {
		t := p.peek()
		if t.k == "op" && (t.s == "==" || t.s == "!=" || t.s == "<" || t.s == "<=" || t.s == ">" || t.s == ">=") {
			p.next()
			r := p.add()
			l = &SExpr{Kind: "binary", Op: t.s, Args: []*SExpr{l, r}}
			continue
		}
		if t.k == "ident" && t.s == "in" {
			p.next()
			r := p.add()
			l = &SExpr{Kind: "binary", Op: "in", Args: []*SExpr{l, r}}
			continue
		}
		if t.k == "op" && t.s == "!in" {
			p.next()
			r := p.add()
			l = &SExpr{Kind: "unary", Op: "!", Args: []*SExpr{{Kind: "binary", Op: "in", Args: []*SExpr{l, r}}}}
			continue
		}
		if t.k == "ident" && t.s == "is" {
			p.next()
			ty := p.typeExpr()
			l = &SExpr{Kind: "is", Args: []*SExpr{l}, Type: ty}
			continue
		}
		if t.k == "ident" && t.s == "isnot" {
			p.next()
			ty := p.typeExpr()
			l = &SExpr{Kind: "unary", Op: "!", Args: []*SExpr{{Kind: "is", Args: []*SExpr{l}, Type: ty}}}
			continue
		}
		break
	}
	return l
}

func (p *sparser) add() *SExpr {
	l := p.mul()
	for p.isOp("+") || p.isOp("-") {
		o := p.next().s
		r := p.mul()
		l = &SExpr{Kind: "binary", Op: o, Args: []*SExpr{l, r}}
	}
	return l
}

func (p *sparser) mul() *SExpr {
	l := p.unary()
	for p.isOp("*") || p.isOp("/") || p.isOp("%") {
		o := p.next().s
		r := p.unary()
		l = &SExpr{Kind: "binary", Op: o, Args: []*SExpr{l, r}}
	}
	return l
}

func (p *sparser) unary() *SExpr {
	if p.isOp("!") {
		p.next()
		return &SExpr{Kind: "unary", Op: "!", Args: []*SExpr{p.unary()}}
	}
	if p.isOp("-") {
		p.next()
		return &SExpr{Kind: "unary", Op: "-", Args: []*SExpr{p.unary()}}
	}
	if p.isOp("*") {
		p.next()
		return &SExpr{Kind: "unary", Op: "*", Args: []*SExpr{p.unary()}}
	}
	if p.isOp("&") {
		p.next()
		return &SExpr{Kind: "unary", Op: "&", Args: []*SExpr{p.unary()}}
	}
	return p.postfix()
}

func (p *sparser) postfix() *SExpr {
	e := p.primary()
	for {
		switch {
		case p.isOp(".("):
			p.next()
			ty := p.typeExpr()
			p.expectOp(")")
			e = &SExpr{Kind: "assert", Args: []*SExpr{e}, Type: ty}
		case p.isOp("."):
			p.next()
			n := p.next()
			if n.k != "ident" {
				p.fail("field name expected")
			}
			e = &SExpr{Kind: "field", Name: n.s, Args: []*SExpr{e}}
		case p.isOp("["):
			p.next()
			if p.isOp(":") {
				p.next()
				hi := p.expr()
				p.expectOp("]")
				e = &SExpr{Kind: "slice", Args: []*SExpr{e, nil, hi}}
				continue
			}
			idx := p.expr()
			if p.isOp(":") {
				p.next()
				var hi *SExpr
				if !p.isOp("]") {
					hi = p.expr()
				}
				p.expectOp("]")
				e = &SExpr{Kind: "slice", Args: []*SExpr{e, idx, hi}}
				continue
			}
			p.expectOp("]")
			e = &SExpr{Kind: "index", Args: []*SExpr{e, idx}}
		case p.isOp("("):
			if e.Kind != "ident" {
				p.fail("call of non-identifier")
			}
			p.next()
			var args []*SExpr
			for !p.isOp(")") {
				args = append(args, p.expr())
				if p.isOp(",") {
					p.next()
				}
			}
			p.next()
			e = &SExpr{Kind: "call", Name: e.Name, Args: args}
		default:
			return e
		}
	}
}

func (p *sparser) primary() *SExpr {
	t := p.next()
	switch t.k {
	case "int":
		return &SExpr{Kind: "int", Name: t.s}
	case "str":
		return &SExpr{Kind: "str", Name: t.s}
	case "ident":
		switch t.s {
		case "true", "false":
			return &SExpr{Kind: "bool", Name: t.s}
		case "nil":
			return &SExpr{Kind: "nil"}
		}
		return &SExpr{Kind: "ident", Name: t.s, Pos: t.pos}
	case "op":
		if t.s == "(" {
			e := p.expr()
			p.expectOp(")")
			return e
		}
	}
	p.i--
	p.fail("unexpected token %q", t.s)
	return nil
}

func (p *sparser) typeExpr() *STypeExpr {
	if p.isOp("*") {
		p.next()
		return &STypeExpr{Kind: "ptr", Elem: p.typeExpr()}
	}
	if p.isOp("[") {
		p.next()
		p.expectOp("]")
		return &STypeExpr{Kind: "slice", Elem: p.typeExpr()}
	}
	t := p.next()
	if t.k != "ident" {
		p.i--
		p.fail("type expected")
	}
	if t.s == "map" {
		p.expectOp("[")
		k := p.typeExpr()
		p.expectOp("]")
		v := p.typeExpr()
		return &STypeExpr{Kind: "map", Key: k, Elem: v}
	}
	if p.isOp(".") && p.toks[p.i+1].k == "ident" {
		// qualified name (only when followed by an identifier starting with an upper-case letter)
		n := p.toks[p.i+1].s
		if unicode.IsUpper(rune(n[0])) {
			p.next()
			p.next()
			return &STypeExpr{Kind: "qual", Pkg: t.s, Name: n}
		}
	}
	return &STypeExpr{Kind: "name", Name: t.s}
}
