package main

import (
	"fmt"
	"go/constant"
	"go/token"
	"go/types"
	"os"
	"sort"
	"strings"
	"sync"

	"golang.org/x/tools/go/packages"
	"golang.org/x/tools/go/ssa"
	"golang.org/x/tools/go/ssa/ssautil"
)

type Engine struct {
	prog     *ssa.Program
	pkg      *ssa.Package
	tpkg     *packages.Package
	reg      *TypeReg
	specs    *SpecFile
	funcs    map[string]*ssa.Function // by RelString name
	cfgs     map[*ssa.Function]*cfgInfo
	strs     map[string]string
	strList  []string
	extraFns map[string]string // name -> declaration
	extraOrd []string
	warnings map[string]bool
	globals  map[string]*GlobalInfo
	globList []*GlobalInfo
	ordinals map[ssa.Instruction]int
	prop     string // property view ("" = all clauses)
	dataComps []string
	kf       *KnownFindings
	loadErrs []string
	repoDir  string
	pureMemo map[string]bool
	pureDefs []string
	pix      *preludeIndex
	pixFor   string
	pixMu    sync.Mutex
	noFilter bool
}

type GlobalInfo struct {
	G       *ssa.Global
	Name    string
	ID      int
	Sentinel bool     // initialised by errors.New
	Wraps   string    // name of wrapped sentinel (fmt.Errorf with %w)
	Bytes   []int64   // literal byte contents for []byte globals
	HasBytes bool
}

func (e *Engine) warn(s string) { e.warnings[s] = true }

func LoadEngine(repo string, specPaths []string) (*Engine, error) {
	cfg := &packages.Config{
		Mode:       packages.LoadAllSyntax,
		Dir:        repo,
		BuildFlags: []string{"-tags=verif"},
		Env:        append(os.Environ(), "GOFLAGS=-mod=mod", "GOPROXY=off", "GOSUMDB=off", "GOTOOLCHAIN=local"),
	}
	pkgs, err := packages.Load(cfg, ".")
	if err != nil {
		return nil, err
	}
	if len(pkgs) != 1 {
		return nil, fmt.Errorf("expected one package, got %d", len(pkgs))
	}
	if len(pkgs[0].Errors) > 0 {
		return nil, fmt.Errorf("package errors: %v", pkgs[0].Errors)
	}
	prog, ssapkgs := ssautil.AllPackages(pkgs, ssa.GlobalDebug|ssa.InstantiateGenerics)
	prog.Build()
	e := &Engine{prog: prog, pkg: ssapkgs[0], tpkg: pkgs[0], reg: NewTypeReg(), funcs: map[string]*ssa.Function{},
		cfgs: map[*ssa.Function]*cfgInfo{}, strs: map[string]string{}, extraFns: map[string]string{},
		warnings: map[string]bool{}, globals: map[string]*GlobalInfo{}, ordinals: map[ssa.Instruction]int{}, repoDir: repo}
	// collect functions (including methods and anonymous functions)
	for fn := range ssautil.AllFunctions(prog) {
		if fn.Pkg == e.pkg && fn.Synthetic == "" || (fn.Pkg == e.pkg && fn.Name() == "init") {
			e.funcs[fnName(fn)] = fn
		}
	}
	sf, err := ParseSpecFiles(specPaths)
	if err != nil {
		return nil, err
	}
	e.specs = sf
	e.scanTypes()
	e.scanGlobals()
	e.computeOrdinals()
	// register uninterpreted spec functions as callable
	return e, nil
}

func (e *Engine) allPackages() []*types.Package {
	seen := map[*types.Package]bool{}
	var out []*types.Package
	var walk func(p *types.Package)
	walk = func(p *types.Package) {
		if seen[p] {
			return
		}
		seen[p] = true
		out = append(out, p)
		for _, i := range p.Imports() {
			walk(i)
		}
	}
	walk(e.pkg.Pkg)
	return out
}

func (e *Engine) sortedFuncNames() []string {
	var ns []string
	for n := range e.funcs {
		ns = append(ns, n)
	}
	sort.Strings(ns)
	return ns
}

func (e *Engine) cfg(fn *ssa.Function) *cfgInfo {
	if c, ok := e.cfgs[fn]; ok {
		return c
	}
	c := analyzeCFG(fn)
	e.cfgs[fn] = c
	return c
}

// scanTypes registers every struct sort and every dynamic type that flows
// into an interface anywhere in the package, so that the Any datatype is the
// same in every query.
func (e *Engine) scanTypes() {
	reg := e.reg
	// always present
	for _, k := range []types.BasicKind{types.Int, types.Int8, types.Int16, types.Int32, types.Int64,
		types.Uint, types.Uint8, types.Uint16, types.Uint32, types.Uint64, types.String, types.Bool, types.Float32, types.Float64} {
		reg.AnyConOf(types.Typ[k])
	}
	reg.AnyConOf(types.NewSlice(types.Typ[types.Uint8]))
	anyT := types.Universe.Lookup("any").Type()
	reg.AnyConOf(types.NewSlice(anyT))
	reg.AnyConOf(types.NewMap(anyT, anyT))
	var visit func(t types.Type)
	seen := map[string]bool{}
	visit = func(t types.Type) {
		k := typeKey(t)
		if seen[k] {
			return
		}
		seen[k] = true
		switch u := t.Underlying().(type) {
		case *types.Struct:
			reg.Struct(t)
			for i := 0; i < u.NumFields(); i++ {
				visit(u.Field(i).Type())
			}
		case *types.Pointer:
			visit(u.Elem())
		case *types.Slice:
			visit(u.Elem())
		case *types.Array:
			visit(u.Elem())
		case *types.Map:
			visit(u.Key())
			visit(u.Elem())
		case *types.Tuple:
			for i := 0; i < u.Len(); i++ {
				visit(u.At(i).Type())
			}
		}
	}
	names := e.sortedFuncNames()
	for _, n := range names {
		fn := e.funcs[n]
		for _, p := range fn.Params {
			visit(p.Type())
		}
		for _, b := range fn.Blocks {
			for _, ins := range b.Instrs {
				if v, ok := ins.(ssa.Value); ok {
					if _, isTuple := v.Type().(*types.Tuple); !isTuple {
						visit(v.Type())
					} else {
						visit(v.Type())
					}
				}
				switch x := ins.(type) {
				case *ssa.MakeInterface:
					if _, isIface := x.X.Type().Underlying().(*types.Interface); !isIface {
						visit(x.X.Type())
						reg.AnyConOf(x.X.Type())
					}
				case *ssa.TypeAssert:
					if _, isIface := x.AssertedType.Underlying().(*types.Interface); !isIface {
						visit(x.AssertedType)
						reg.AnyConOf(x.AssertedType)
					}
				}
			}
		}
	}
	// a few types used by the extern models / specs
	for _, tn := range []string{"crypto/ecdsa.PrivateKey", "crypto/ecdsa.PublicKey", "crypto/rsa.PublicKey", "crypto/rsa.PrivateKey"} {
		i := strings.LastIndex(tn, ".")
		for _, p := range e.allPackages() {
			if p.Path() == tn[:i] {
				if o := p.Scope().Lookup(tn[i+1:]); o != nil {
					visit(o.Type())
					reg.AnyConOf(types.NewPointer(o.Type()))
				}
			}
		}
	}
	for _, tn := range []string{"crypto/ed25519.PublicKey", "crypto/ed25519.PrivateKey", "github.com/fxamacker/cbor/v2.RawMessage", "github.com/fxamacker/cbor/v2.Tag"} {
		i := strings.LastIndex(tn, ".")
		for _, p := range e.allPackages() {
			if p.Path() == tn[:i] {
				if o := p.Scope().Lookup(tn[i+1:]); o != nil {
					visit(o.Type())
					reg.AnyConOf(o.Type())
				}
			}
		}
	}
	if o := e.pkg.Pkg.Scope().Lookup("byteString"); o != nil {
		reg.AnyConOf(o.Type())
	}
	for _, p := range e.allPackages() {
		if p.Path() == "github.com/fxamacker/cbor/v2" {
			if o := p.Scope().Lookup("RawMessage"); o != nil {
				reg.AnyConOf(types.NewSlice(o.Type()))
			}
		}
	}
	reg.frozen = true
	// data components: element stores and map components for every sort seen
	comps := map[string]bool{"ML": true, ecomp(SInt): true, ecomp(SAny): true, ecomp(SSlice): true, ecomp(SAddr): true,
		hcomp(SInt): true, hcomp(SBool): true, hcomp(SStr): true, hcomp(SAddr): true, hcomp(SSlice): true, hcomp(SAny): true}
	for k := range seen {
		_ = k
	}
	anyS := string(SAny)
	comps["MD:"+anyS+":"+anyS] = true
	comps["MV:"+anyS+":"+anyS] = true
	for c := range comps {
		e.dataComps = append(e.dataComps, c)
	}
	sort.Strings(e.dataComps)
}

func (e *Engine) scanGlobals() {
	var names []string
	for n, m := range e.pkg.Members {
		if _, ok := m.(*ssa.Global); ok {
			names = append(names, n)
		}
	}
	sort.Strings(names)
	for i, n := range names {
		g := e.pkg.Members[n].(*ssa.Global)
		gi := &GlobalInfo{G: g, Name: n, ID: i + 1}
		e.globals[n] = gi
		e.globList = append(e.globList, gi)
	}
	init := e.pkg.Func("init")
	if init == nil {
		return
	}
	for _, b := range init.Blocks {
		for _, ins := range b.Instrs {
			st, ok := ins.(*ssa.Store)
			if !ok {
				continue
			}
			g, ok := st.Addr.(*ssa.Global)
			if !ok || g.Pkg != e.pkg {
				continue
			}
			gi := e.globals[g.Name()]
			switch v := st.Val.(type) {
			case *ssa.Call:
				if f, ok := v.Call.Value.(*ssa.Function); ok {
					switch f.String() {
					case "errors.New":
						gi.Sentinel = true
					case "fmt.Errorf":
						gi.Sentinel = true
						// find %w operand that is a load of a global
						for _, a := range v.Call.Args {
							if sl, ok := a.(*ssa.Slice); ok {
								if al, ok := sl.X.(*ssa.Alloc); ok {
									for _, r := range *al.Referrers() {
										if ia, ok := r.(*ssa.IndexAddr); ok {
											for _, r2 := range *ia.Referrers() {
												if s2, ok := r2.(*ssa.Store); ok {
													if mi, ok := s2.Val.(*ssa.MakeInterface); ok {
														_ = mi
													}
													if ci, ok := s2.Val.(*ssa.ChangeInterface); ok {
														if ld, ok := ci.X.(*ssa.UnOp); ok {
															if gg, ok := ld.X.(*ssa.Global); ok {
																gi.Wraps = gg.Name()
															}
														}
													}
													if ld, ok := s2.Val.(*ssa.UnOp); ok {
														if gg, ok := ld.X.(*ssa.Global); ok {
															gi.Wraps = gg.Name()
														}
													}
												}
											}
										}
									}
								}
							}
						}
					}
				}
			case *ssa.Slice:
				if al, ok := v.X.(*ssa.Alloc); ok {
					at, ok := al.Type().(*types.Pointer).Elem().Underlying().(*types.Array)
					if ok && isInt(at.Elem()) {
						bs := make([]int64, at.Len())
						okAll := true
						for _, r := range *al.Referrers() {
							if ia, ok := r.(*ssa.IndexAddr); ok {
								idx, ok1 := constInt(ia.Index)
								for _, r2 := range *ia.Referrers() {
									if s2, ok := r2.(*ssa.Store); ok {
										val, ok2 := constInt(s2.Val)
										if ok1 && ok2 {
											bs[idx] = val
										} else {
											okAll = false
										}
									}
								}
							}
						}
						if okAll {
							gi.Bytes = bs
							gi.HasBytes = true
						}
					}
				}
			}
		}
	}
}

func (e *Engine) computeOrdinals() {
	for _, n := range e.sortedFuncNames() {
		fn := e.funcs[n]
		cnt := 0
		for _, b := range fn.Blocks {
			for _, ins := range b.Instrs {
				cnt++
				e.ordinals[ins] = cnt
			}
		}
	}
}

// instrOrdinal: ordinal of the instruction among instructions of its function
// that can raise a panic of the given kind, in block order. Stable against
// line moves; changes only if the function's own shape changes.
func (e *Engine) instrOrdinal(ins ssa.Instruction, kind string) int {
	fn := ins.Parent()
	n := 0
	for _, b := range fn.Blocks {
		for _, i2 := range b.Instrs {
			if panicKindOf(i2, kind) {
				n++
			}
			if i2 == ins {
				return n
			}
		}
	}
	return n
}

func panicKindOf(ins ssa.Instruction, kind string) bool {
	switch x := ins.(type) {
	case *ssa.FieldAddr:
		return kind == "nilderef"
	case *ssa.UnOp:
		return kind == "nilderef" && x.Op == token.MUL
	case *ssa.Store:
		return kind == "nilderef"
	case *ssa.IndexAddr:
		return kind == "index" || kind == "nilderef"
	case *ssa.Index, *ssa.Lookup:
		return kind == "index" || kind == "maphash"
	case *ssa.TypeAssert:
		return kind == "typeassert" && !x.CommaOk
	case *ssa.Slice:
		return kind == "slice" || kind == "nilderef"
	case *ssa.MapUpdate:
		return kind == "nilmap" || kind == "maphash"
	case *ssa.MakeSlice:
		return kind == "makeslice"
	case *ssa.BinOp:
		return kind == "divzero" && (x.Op == token.QUO || x.Op == token.REM)
	case *ssa.Call:
		return kind == "call" || kind == "nilinvoke" || kind == "requires" || kind == "nilderef"
	}
	return false
}

func (e *Engine) strLit(s string) Term {
	if n, ok := e.strs[s]; ok {
		return Term{n, SStr}
	}
	if s == "" {
		e.strs[s] = "str_empty"
		return Term{"str_empty", SStr}
	}
	n := fmt.Sprintf("strlit!%d", len(e.strList))
	e.strs[s] = n
	e.strList = append(e.strList, s)
	return Term{n, SStr}
}

func (e *Engine) declareFun(name string, args []Sort, ret Sort) {
	if _, ok := e.extraFns[name]; ok {
		return
	}
	var as []string
	for _, a := range args {
		as = append(as, string(a))
	}
	e.extraFns[name] = fmt.Sprintf("(declare-fun %s (%s) %s)", name, strings.Join(as, " "), ret)
	e.extraOrd = append(e.extraOrd, name)
}

// ---- globals ----

func (e *Engine) globalAddr(g *ssa.Global) Term {
	if gi, ok := e.globals[g.Name()]; ok && g.Pkg == e.pkg {
		return MkAddr(IntLit(int64(gi.ID)))
	}
	// external global: address unknown but fixed
	name := "gaddr_" + mangle(g.String())
	e.declareFun(name, nil, SAddr)
	return Term{name, SAddr}
}

func (e *Engine) globalConst(g *ssa.Global) Term {
	et := g.Type().(*types.Pointer).Elem()
	name := "gv_" + mangle(g.String())
	e.declareFun(name, nil, e.reg.SortOf(et))
	if g.Pkg != e.pkg && types.Identical(et, types.Universe.Lookup("error").Type()) {
		// exported sentinel errors of other packages (io.EOF, ...) are non-nil
		if d := e.extraFns[name]; !strings.Contains(d, "assert") {
			e.extraFns[name] = d + fmt.Sprintf("\n(assert (not (= %s A_nil)))", name)
		}
	}
	return Term{name, e.reg.SortOf(et)}
}

// globalValue reads a package-level variable. Outside init, package variables
// are treated as constants (they are written only by init: obligation
// globals_write_once).
func (e *Engine) globalValue(u *Unit, st *State, g *ssa.Global) Term {
	et := g.Type().(*types.Pointer).Elem()
	if u.isInit && g.Pkg == e.pkg {
		name := fmt.Sprintf("G:%s:global!%s", e.reg.SortOf(et), g.Name())
		if _, ok := st.comps[name]; !ok {
			st.comps[name] = e.reg.ZeroOf(et)
		}
		return st.comps[name]
	}
	return e.globalConst(g)
}

func (e *Engine) globalStore(u *Unit, fr *Frame, st *State, g *ssa.Global, v Term) {
	et := g.Type().(*types.Pointer).Elem()
	if u.isInit && g.Pkg == e.pkg {
		name := fmt.Sprintf("G:%s:global!%s", e.reg.SortOf(et), g.Name())
		u.setComp(st, name, v)
		return
	}
	// a write to a package-level variable outside init
	u.oblige(st, "frame", fnName(fr.fn), "globals_write_once@"+g.Name(), "", False, []string{"C18"})
}

// globalAxioms: facts about package-level constants.
func (e *Engine) globalAxioms(u *Unit, byteHeapDeclared bool) string {
	var sb strings.Builder
	var sentinels []string
	for _, gi := range e.globList {
		et := gi.G.Type().(*types.Pointer).Elem()
		if _, ok := e.extraFns["gv_"+mangle(gi.G.String())]; !ok {
			continue
		}
		c := "gv_" + mangle(gi.G.String())
		if types.Identical(et, types.Universe.Lookup("error").Type()) && gi.Sentinel {
			sentinels = append(sentinels, c)
			fmt.Fprintf(&sb, "(assert (not (= %s A_nil)))\n", c)
			fmt.Fprintf(&sb, "(assert (< (any_obj %s) 0))\n", c)
			if gi.Wraps != "" {
				w := "gv_" + mangle(e.globals[gi.Wraps].G.String())
				if _, ok := e.extraFns[w]; ok {
					fmt.Fprintf(&sb, "(assert (= (wraps %s) %s))\n", c, w)
				}
			} else {
				fmt.Fprintf(&sb, "(assert (= (wraps %s) A_nil))\n", c)
			}
		}
		if _, ok := et.Underlying().(*types.Interface); ok && !gi.Sentinel {
			fmt.Fprintf(&sb, "(assert (not (= %s A_nil)))\n", c)
		}
		if gi.HasBytes {
			fmt.Fprintf(&sb, "(assert (and (= (slen %s) %d) (>= (scap %s) %d) (>= (soff %s) 0) (< (sarr %s) 0)))\n", c, len(gi.Bytes), c, len(gi.Bytes), c, c)
			if h0, ok := u.init0[ecomp(SInt)]; ok && byteHeapDeclared {
				for i, b := range gi.Bytes {
					fmt.Fprintf(&sb, "(assert (= (select (select %s (sarr %s)) (+ (soff %s) %d)) %d))\n", h0.S, c, c, i, b)
				}
			}
		}
	}
	if len(sentinels) > 1 {
		fmt.Fprintf(&sb, "(assert (distinct %s))\n", strings.Join(sentinels, " "))
	}
	return sb.String()
}

// constant for types.Const lookups in specs
var _ = constant.MakeInt64
