package main

import (
	"fmt"
	"go/types"
	"sort"
	"strings"
)

// Prelude builds the fixed part of every query: sorts, datatypes, functions
// and axioms. It depends only on the type registry (which is frozen after the
// package scan), never on the function being verified.
func (e *Engine) Prelude() string {
	var sb strings.Builder
	sb.WriteString(e.reg.Prelude())
	sb.WriteString(e.dataDecl())
	sb.WriteString(`
(declare-datatypes ((ECPub 0)) (((mk-ecpub (ec_curve Any) (ec_x Int) (ec_y Int)))))
(declare-datatypes ((ECPriv 0)) (((mk-ecpriv (ec_pub ECPub) (ec_d Int)))))
(declare-datatypes ((RSAPub 0)) (((mk-rsapub (rsa_n Int) (rsa_e Int)))))
(declare-datatypes ((SignOpts 0)) (((opts_nil) (opts_hash (opts_h Int)) (opts_pss (opts_salt Int) (opts_pss_hash Int)) (opts_other (opts_o Any)))))
; ---- integers ----
(define-fun wrap_u8 ((x Int)) Int (mod x 256))
(define-fun wrap_u16 ((x Int)) Int (mod x 65536))
(define-fun wrap_u32 ((x Int)) Int (mod x 4294967296))
(define-fun wrap_u64 ((x Int)) Int (mod x 18446744073709551616))
(define-fun wrap_s8 ((x Int)) Int (- (mod (+ x 128) 256) 128))
(define-fun wrap_s16 ((x Int)) Int (- (mod (+ x 32768) 65536) 32768))
(define-fun wrap_s32 ((x Int)) Int (- (mod (+ x 2147483648) 4294967296) 2147483648))
(define-fun wrap_s64 ((x Int)) Int (- (mod (+ x 9223372036854775808) 18446744073709551616) 9223372036854775808))
(define-fun go_div ((a Int) (b Int)) Int (ite (>= a 0) (ite (> b 0) (div a b) (- (div a (- b)))) (ite (> b 0) (- (div (- a) b)) (div (- a) (- b)))))
(define-fun go_rem ((a Int) (b Int)) Int (- a (* b (go_div a b))))
(declare-fun idx_at (Int Int) Int)
(assert (forall ((o Int) (i Int)) (! (= (idx_at o i) (+ o i)) :pattern ((idx_at o i)))))
; ---- strings ----
(declare-fun str_len (Str) Int)
(declare-fun str_at (Str Int) Int)
(declare-fun str_cat (Str Str) Str)
(declare-fun str_sub (Str Int Int) Str)
(declare-fun str_count (Str Str) Int)
(declare-fun str_of_bytes (Bytes) Str)
(declare-fun bytes_of_str (Str) Bytes)
(declare-const str_empty Str)
(assert (= (str_len str_empty) 0))
(assert (forall ((s Str)) (! (>= (str_len s) 0) :pattern ((str_len s)))))
(assert (forall ((s Str)) (! (=> (= (str_len s) 0) (= s str_empty)) :pattern ((str_len s)))))
(assert (forall ((s Str) (i Int)) (! (and (<= 0 (str_at s i)) (<= (str_at s i) 255)) :pattern ((str_at s i)))))
(assert (forall ((a Str) (b Str)) (! (= (str_len (str_cat a b)) (+ (str_len a) (str_len b))) :pattern ((str_cat a b)))))
; ---- byte sequences ----
(declare-fun blen (Bytes) Int)
(declare-fun bat (Bytes Int) Int)
(declare-fun bsub (Bytes Int Int) Bytes)
(declare-fun bcat (Bytes Bytes) Bytes)
(declare-fun bdiff (Bytes Bytes) Int)
(declare-const bempty Bytes)
(declare-fun view ((Array Int Int) Int Int) Bytes)
(declare-fun wr ((Array Int Int) Int Bytes) (Array Int Int))
(declare-fun be (Bytes) Int)
(declare-fun bebytes (Int Int) Bytes)
(declare-fun bitlen (Int) Int)
(declare-fun minimal_be (Bytes) Bool)
(assert (= (blen bempty) 0))
(assert (forall ((b Bytes)) (! (>= (blen b) 0) :pattern ((blen b)))))
(assert (forall ((b Bytes)) (! (=> (= (blen b) 0) (= b bempty)) :pattern ((blen b)))))
; NOTE: no global "every bat is a byte" axiom: together with the view axiom below it would be inconsistent for arrays that hold
; values outside 0..255. Byte ranges come from the type invariants of heap loads and from the axioms of the individual constructors.
(assert (forall ((A (Array Int Int)) (o Int) (l Int)) (! (= (blen (view A o l)) (ite (>= l 0) l 0)) :pattern ((view A o l)))))
(assert (forall ((A (Array Int Int)) (o Int) (l Int) (i Int)) (! (=> (and (<= 0 i) (< i l)) (= (bat (view A o l) i) (select A (+ o i)))) :pattern ((bat (view A o l) i)))))
(assert (forall ((A (Array Int Int)) (o Int) (B Bytes) (i Int)) (! (= (select (wr A o B) i) (ite (and (<= o i) (< i (+ o (blen B)))) (bat B (- i o)) (select A i))) :pattern ((select (wr A o B) i)))))
(assert (forall ((A (Array Int Int)) (o Int) (B Bytes) (o2 Int) (l2 Int)) (! (=> (and (= o2 o) (= l2 (blen B))) (= (view (wr A o B) o2 l2) B)) :pattern ((view (wr A o B) o2 l2)))))
(assert (forall ((A (Array Int Int)) (o Int) (B Bytes) (o2 Int) (l2 Int)) (! (=> (or (<= (+ o2 l2) o) (<= (+ o (blen B)) o2)) (= (view (wr A o B) o2 l2) (view A o2 l2))) :pattern ((view (wr A o B) o2 l2)))))
; the two halves of a concatenation written at o (restricted to this shape: a general "view of a written range" rule
; re-triggers itself through bsub/view and makes the Sig_structure proofs diverge)
(assert (forall ((A (Array Int Int)) (o Int) (a Bytes) (b Bytes) (o2 Int) (l2 Int)) (! (and (=> (and (= o2 o) (= l2 (blen a))) (= (view (wr A o (bcat a b)) o2 l2) a)) (=> (and (= o2 (+ o (blen a))) (= l2 (blen b))) (= (view (wr A o (bcat a b)) o2 l2) b))) :pattern ((view (wr A o (bcat a b)) o2 l2)))))
(assert (forall ((a Bytes) (b Bytes)) (! (= (blen (bcat a b)) (+ (blen a) (blen b))) :pattern ((bcat a b)))))
(assert (forall ((a Bytes) (b Bytes) (i Int)) (! (= (bat (bcat a b) i) (ite (< i (blen a)) (bat a i) (bat b (- i (blen a))))) :pattern ((bat (bcat a b) i)))))
(assert (forall ((a Bytes)) (! (= (bcat bempty a) a) :pattern ((bcat bempty a)))))
(assert (forall ((a Bytes)) (! (= (bcat a bempty) a) :pattern ((bcat a bempty)))))
(assert (forall ((b Bytes) (lo Int) (hi Int)) (! (=> (and (<= 0 lo) (<= lo hi) (<= hi (blen b))) (= (blen (bsub b lo hi)) (- hi lo))) :pattern ((bsub b lo hi)))))
(assert (forall ((b Bytes) (lo Int) (hi Int) (i Int)) (! (=> (and (<= 0 i) (< i (- hi lo))) (= (bat (bsub b lo hi) i) (bat b (+ lo i)))) :pattern ((bat (bsub b lo hi) i)))))
(assert (forall ((b Bytes)) (! (= (bsub b 0 (blen b)) b) :pattern ((bsub b 0 (blen b))))))
(assert (forall ((A (Array Int Int)) (o Int) (l Int) (lo Int) (hi Int)) (! (=> (and (<= 0 lo) (<= lo hi) (<= hi l)) (= (bsub (view A o l) lo hi) (view A (+ o lo) (- hi lo)))) :pattern ((bsub (view A o l) lo hi)))))
(assert (forall ((a Bytes) (b Bytes)) (! (=> (and (>= (blen a) 0)) (and (= (bsub (bcat a b) 0 (blen a)) a) (= (bsub (bcat a b) (blen a) (+ (blen a) (blen b))) b))) :pattern ((bcat a b)))))
; one-byte sequences
(declare-fun byte1 (Int) Bytes)
(assert (forall ((x Int)) (! (and (= (blen (byte1 x)) 1) (=> (and (<= 0 x) (<= x 255)) (= (bat (byte1 x) 0) x))) :pattern ((byte1 x)))))
(assert (forall ((b Bytes)) (! (=> (= (blen b) 1) (= b (byte1 (bat b 0)))) :pattern ((blen b)))))
; big-endian integers
(assert (forall ((b Bytes)) (! (>= (be b) 0) :pattern ((be b)))))
(assert (forall ((v Int) (l Int)) (! (= (blen (bebytes v l)) (ite (>= l 0) l 0)) :pattern ((bebytes v l)))))
(assert (forall ((v Int) (l Int)) (! (=> (and (>= v 0) (<= (bitlen v) (* 8 l))) (= (be (bebytes v l)) v)) :pattern ((bebytes v l)))))
(assert (forall ((v Int)) (! (>= (bitlen v) 0) :pattern ((bitlen v)))))
(assert (= (bitlen 0) 0))
(assert (forall ((b Bytes)) (! (<= (bitlen (be b)) (* 8 (blen b))) :pattern ((be b)))))
(assert (forall ((b Bytes)) (! (=> (and (minimal_be b) (> (blen b) 0)) (> (bitlen (be b)) (* 8 (- (blen b) 1)))) :pattern ((minimal_be b)))))
; ---- CBOR ----
(declare-fun enc (CV) Bytes)
(declare-fun enc_ok (CV) Bool)
(declare-fun cv_of_any (Any Data) CV)
(declare-fun cv_list_tail ((Array Int Any) Int Int Data) CVList)
(declare-fun cv_rawlist ((Array Int Slice) Int Int (Array Int (Array Int Int))) CVList)
(declare-fun wf_err (Any Bytes) Any)
(declare-fun dec_err (Any Bytes Int) Any)
; ---- decoding (assumed contract of fxamacker/cbor DecMode.Unmarshal; see DESIGN.md section 3) ----
(declare-fun dec_shape_err (Any Bytes Str) Any)   ; error of decoding item b into a destination of the named Go shape (nil = accepted)
(declare-fun dec_elem (Bytes Int) Bytes)          ; encoded bytes of element i of the array item b
(declare-fun dec_count (Bytes Int) Int)           ; number of elements of the array that is element i of b
(declare-fun dec_isnull (Bytes Int) Bool)         ; element i of b is null / undefined
(declare-fun dec_elem2 (Bytes Int Int) Bytes)     ; encoded bytes of element j of the array that is element i of b
(declare-fun dec_any (Any Bytes) Any)             ; value produced by decoding b into an empty interface
(declare-fun dec_map_dom (Any Bytes) (Array Any Bool))
(declare-fun dec_map_val (Any Bytes) (Array Any Any))
(declare-fun dec_map_len (Any Bytes) Int)
(declare-fun dec_map_raw (Any Bytes Any) Bytes)   ; encoded bytes of the value under key k of the map item b
(declare-fun dec_labels_err (Any Bytes) Any)      ; error of the label pre-validation decode (map[headerLabelValidator]discardedCBORMessage)
(declare-fun dec_obj (Int Any) Int)               ; object ids of the per-key values allocated by one decode
(declare-fun dec_obj2 (Int Int) Int)              ; object ids of the per-index values allocated by one decode
(declare-fun dec_list_isnil (Bytes Int) Bool)
(assert (forall ((b Bytes) (i Int)) (! (>= (dec_count b i) 0) :pattern ((dec_count b i)))))
(assert (forall ((m Any) (b Bytes)) (! (>= (dec_map_len m b) 0) :pattern ((dec_map_len m b)))))
(declare-fun dec_bytes_err (Any Bytes) Any)
(declare-fun item_wf (Bytes) Bool)
(assert (forall ((b Bytes)) (! (=> (>= (blen b) 1) (= (enc (cv_raw b)) b)) :pattern ((enc (cv_raw b))))))
(assert (forall ((c CV)) (! (>= (blen (enc c)) 1) :pattern ((enc c)))))
; which values the encoder accepts (fxamacker v2.5.0: RawMessage is emitted verbatim and never validated)
(declare-fun enc_list_ok (CVList) Bool)
(assert (enc_ok cv_null))
(assert (forall ((i Int)) (! (enc_ok (cv_int i)) :pattern ((enc_ok (cv_int i))))))
(assert (forall ((b Bool)) (! (enc_ok (cv_bool b)) :pattern ((enc_ok (cv_bool b))))))
(assert (forall ((s Str)) (! (enc_ok (cv_tstr s)) :pattern ((enc_ok (cv_tstr s))))))
(assert (forall ((b Bytes)) (! (enc_ok (cv_bstr b)) :pattern ((enc_ok (cv_bstr b))))))
(assert (forall ((b Bytes)) (! (enc_ok (cv_raw b)) :pattern ((enc_ok (cv_raw b))))))
(assert (forall ((l CVList)) (! (= (enc_ok (cv_arr l)) (enc_list_ok l)) :pattern ((enc_ok (cv_arr l))))))
(assert (forall ((n Int) (c CV)) (! (= (enc_ok (cv_tag n c)) (enc_ok c)) :pattern ((enc_ok (cv_tag n c))))))
(assert (enc_list_ok cvnil))
(assert (forall ((h CV) (t CVList)) (! (= (enc_list_ok (cvcons h t)) (and (enc_ok h) (enc_list_ok t))) :pattern ((enc_list_ok (cvcons h t))))))

; head of a byte string item
(define-fun b_major ((b Bytes)) Int (div (bat b 0) 32))
(define-fun b_ai ((b Bytes)) Int (mod (bat b 0) 32))
(define-fun be2 ((b Bytes) (o Int)) Int (+ (* 256 (bat b o)) (bat b (+ o 1))))
(define-fun be4 ((b Bytes) (o Int)) Int (+ (* 16777216 (bat b o)) (* 65536 (bat b (+ o 1))) (* 256 (bat b (+ o 2))) (bat b (+ o 3))))
(define-fun be8 ((b Bytes) (o Int)) Int (+ (* 4294967296 (be4 b o)) (be4 b (+ o 4))))
(define-fun head_extra ((b Bytes)) Int (ite (< (b_ai b) 24) 0 (ite (= (b_ai b) 24) 1 (ite (= (b_ai b) 25) 2 (ite (= (b_ai b) 26) 4 8)))))
(define-fun head_arg ((b Bytes)) Int (ite (< (b_ai b) 24) (b_ai b) (ite (= (b_ai b) 24) (bat b 1) (ite (= (b_ai b) 25) (be2 b 1) (ite (= (b_ai b) 26) (be4 b 1) (be8 b 1))))))
(define-fun bstr_wf ((b Bytes)) Bool (and (>= (blen b) 1) (= (b_major b) 2) (<= (b_ai b) 27) (>= (blen b) (+ 1 (head_extra b))) (= (blen b) (+ 1 (head_extra b) (head_arg b)))))
(define-fun head_minimal ((b Bytes)) Bool (or (< (b_ai b) 24) (and (= (b_ai b) 24) (>= (head_arg b) 24)) (and (= (b_ai b) 25) (>= (head_arg b) 256)) (and (= (b_ai b) 26) (>= (head_arg b) 65536)) (and (= (b_ai b) 27) (>= (head_arg b) 4294967296))))
(define-fun bstr_content ((b Bytes)) Bytes (bsub b (+ 1 (head_extra b)) (blen b)))
; values the decoder produces for an interface destination under the configured modes: no Go integer type other than int64
; (IntDecConvertSigned; larger positive integers are an error), and none of the package's own pointer / struct types
(define-fun dec_val_ok ((v Any)) Bool (or (= v A_nil) ((_ is A_int64) v) ((_ is A_string) v) ((_ is A_LJbyte) v) ((_ is A_LJany) v) ((_ is A_mapLanyJany) v) ((_ is A_bool) v) ((_ is A_float64) v) (and ((_ is A_other) v) (= (other_tid v) 900006))))
; encoder contract for a byte string item: well-formed, shortest head, content verbatim
(assert (forall ((b Bytes)) (! (> (blen (enc (cv_bstr b))) (blen b)) :pattern ((enc (cv_bstr b)))))) ; the item contains its content
(assert (forall ((b Bytes)) (! (=> (< (blen b) 18446744073709551616) (and (bstr_wf (enc (cv_bstr b))) (head_minimal (enc (cv_bstr b))) (= (bstr_content (enc (cv_bstr b))) b))) :pattern ((enc (cv_bstr b))))))
; ---- errors ----
(declare-fun wraps (Any) Any)
(assert (= (wraps A_nil) A_nil))
(declare-fun err_text (Any) Str)
; ---- crypto ----
(declare-fun hash_available (Int) Bool)
(declare-fun hash_size (Int) Int)
(declare-fun hash_of (Int Bytes) Bytes)
(assert (and (= (hash_size 5) 32) (= (hash_size 6) 48) (= (hash_size 7) 64)))
(assert (forall ((h Int)) (! (>= (hash_size h) 0) :pattern ((hash_size h)))))
(assert (forall ((h Int) (b Bytes)) (! (= (blen (hash_of h b)) (hash_size h)) :pattern ((hash_of h b)))))
(declare-fun signer_alg (Any) Int)
(declare-fun verifier_alg (Any) Int)
(declare-fun signer_sign_err (Any Any Bytes Int) Any)
(declare-fun signer_sign_bytes (Any Any Bytes Int) Bytes)
(declare-fun signer_sign_nil (Any Any Bytes Int) Bool)
(declare-fun verifier_verify (Any Bytes Bytes) Any)
(declare-fun crypto_public (Any) Any)
(declare-fun crypto_sign_err (Any Any Bytes SignOpts Int) Any)
(declare-fun crypto_sign_bytes (Any Any Bytes SignOpts Int) Bytes)
(declare-fun curve_params (Any) Addr)
(declare-const curve_p256 Any)
(declare-const curve_p384 Any)
(declare-const curve_p521 Any)
(assert (distinct curve_p256 curve_p384 curve_p521 A_nil))
(declare-fun ecdsa_sign_err (ECPriv Any Bytes Int) Any)
(declare-fun ecdsa_sign_r (ECPriv Any Bytes Int) Int)
(declare-fun ecdsa_sign_s (ECPriv Any Bytes Int) Int)
(declare-fun ecdsa_verify (ECPub Bytes Int Int) Bool)
(declare-fun ecdh_err (ECPub) Any)
(declare-fun ed_pub_of_seed (Bytes) Bytes)
(assert (forall ((b Bytes)) (! (= (blen (ed_pub_of_seed b)) 32) :pattern ((ed_pub_of_seed b)))))
(declare-fun ed25519_verify (Bytes Bytes Bytes) Bool)
(declare-fun rsa_verify_pss (RSAPub Int Bytes Bytes Int) Any)
(declare-fun asn1_err (Bytes) Any)
(declare-fun asn1_r (Bytes) Int)
(declare-fun asn1_s (Bytes) Int)
`)
	// slice_ok, any_ok, any_obj, any_hashable, any_typeid
	sb.WriteString("(define-fun slice_ok ((s Slice) (alloc Int)) Bool (and (< (sarr s) alloc) (>= (soff s) 0) (>= (slen s) 0) (<= (slen s) (scap s)) (<= (scap s) 281474976710656) (=> (= (sarr s) 0) (and (= (soff s) 0) (= (scap s) 0)))))\n")
	cons := e.reg.sortedAnyCons()
	// any_obj
	var objb strings.Builder
	objb.WriteString("(define-fun any_obj ((a Any)) Int ")
	closers := 0
	objb.WriteString("(ite ((_ is A_other) a) (other_h a) ")
	closers++
	for _, c := range cons {
		var t string
		p := fmt.Sprintf("(%s a)", c.Sel)
		switch c.Payload {
		case SAddr:
			t = "(aobj " + p + ")"
		case SSlice:
			t = "(sarr " + p + ")"
		}
		if _, ok := c.T.Underlying().(*types.Map); ok {
			t = p
		}
		if t == "" {
			continue
		}
		fmt.Fprintf(&objb, "(ite ((_ is %s) a) %s ", c.Con, t)
		closers++
	}
	objb.WriteString("0")
	objb.WriteString(strings.Repeat(")", closers))
	objb.WriteString(")\n")
	sb.WriteString(objb.String())
	// any_typeid
	var tb strings.Builder
	tb.WriteString("(define-fun any_typeid ((a Any)) Int (ite ((_ is A_nil) a) 0 (ite ((_ is A_other) a) (other_tid a) ")
	n := 2
	for _, c := range cons {
		fmt.Fprintf(&tb, "(ite ((_ is %s) a) %d ", c.Con, c.ID)
		n++
	}
	tb.WriteString("0")
	tb.WriteString(strings.Repeat(")", n))
	tb.WriteString(")\n")
	sb.WriteString(tb.String())
	// any_ok: payload invariants. Struct payloads: field invariants (one level).
	sb.WriteString("(declare-fun other_hashable (Int) Bool)\n")
	var ok strings.Builder
	ok.WriteString("(define-fun any_ok ((a Any) (alloc Int)) Bool (and (=> ((_ is A_other) a) (and (> (other_tid a) 100000) (< (other_h a) alloc)))")
	for _, c := range cons {
		inv := e.payloadInv(Term{fmt.Sprintf("(%s a)", c.Sel), c.Payload}, c.T, 2)
		if inv.S != "true" {
			fmt.Fprintf(&ok, " (=> ((_ is %s) a) %s)", c.Con, inv.S)
		}
	}
	ok.WriteString("))\n")
	sb.WriteString(ok.String())
	// integer-keyed membership, skolemised: has_int D l <=> exists k. D[k] and k is an integer of any Go type with value l
	{
		var isInt, val strings.Builder
		isInt.WriteString("(define-fun any_is_int ((a Any)) Bool (or false")
		val.WriteString("(define-fun any_int_val ((a Any)) Int ")
		n := 0
		for _, c := range cons {
			if b, ok := c.T.(*types.Basic); ok && b.Info()&types.IsInteger != 0 {
				fmt.Fprintf(&isInt, " ((_ is %s) a)", c.Con)
				fmt.Fprintf(&val, "(ite ((_ is %s) a) (%s a) ", c.Con, c.Sel)
				n++
			}
		}
		isInt.WriteString("))\n")
		val.WriteString("0" + strings.Repeat(")", n) + ")\n")
		sb.WriteString(isInt.String())
		sb.WriteString(val.String())
		sb.WriteString("(declare-fun has_int ((Array Any Bool) Int) Bool)\n")
		sb.WriteString("(declare-fun int_witness ((Array Any Bool) Int) Any)\n")
		sb.WriteString("(assert (forall ((D (Array Any Bool)) (k Any)) (! (=> (and (select D k) (any_is_int k)) (has_int D (any_int_val k))) :pattern ((select D k)))))\n")
		sb.WriteString("(assert (forall ((D (Array Any Bool)) (l Int)) (! (=> (has_int D l) (and (select D (int_witness D l)) (any_is_int (int_witness D l)) (= (any_int_val (int_witness D l)) l))) :pattern ((has_int D l)))))\n")
		// consequences of the two defining axioms, stated for the shapes that occur (adding a key, the empty set)
		sb.WriteString("(assert (forall ((D (Array Any Bool)) (k Any) (l Int)) (! (= (has_int (store D k true) l) (or (has_int D l) (and (any_is_int k) (= (any_int_val k) l)))) :pattern ((has_int (store D k true) l)))))\n")
		sb.WriteString("(assert (forall ((l Int)) (! (not (has_int ((as const (Array Any Bool)) false) l)) :pattern ((has_int ((as const (Array Any Bool)) false) l)))))\n")
	}
	// reflect-level views of an interface value: signed / unsigned integer kinds (named types included) and byte-slice kinds
	{
		sb.WriteString("(declare-fun other_canint (Int) Bool)\n(declare-fun other_canuint (Int) Bool)\n(declare-fun other_isbytes (Int) Bool)\n(declare-fun other_int (Any) Int)\n(declare-fun other_bytes (Any) Slice)\n")
		var ci, cu, cb, iv, uv, bv strings.Builder
		ci.WriteString("(define-fun any_canint ((a Any)) Bool (or (and ((_ is A_other) a) (other_canint (other_tid a)))")
		cu.WriteString("(define-fun any_canuint ((a Any)) Bool (or (and ((_ is A_other) a) (other_canuint (other_tid a)))")
		cb.WriteString("(define-fun any_isbytes ((a Any)) Bool (or (and ((_ is A_other) a) (other_isbytes (other_tid a)))")
		iv.WriteString("(define-fun any_intval ((a Any)) Int ")
		uv.WriteString("(define-fun any_uintval ((a Any)) Int ")
		bv.WriteString("(define-fun any_bytesval ((a Any)) Slice ")
		ni, nu, nb := 0, 0, 0
		for _, c := range cons {
			switch ut := c.T.Underlying().(type) {
			case *types.Basic:
				if ut.Info()&types.IsInteger != 0 && ut.Info()&types.IsUnsigned == 0 {
					fmt.Fprintf(&ci, " ((_ is %s) a)", c.Con)
					fmt.Fprintf(&iv, "(ite ((_ is %s) a) (%s a) ", c.Con, c.Sel)
					ni++
				}
				if ut.Info()&types.IsInteger != 0 && ut.Info()&types.IsUnsigned != 0 {
					fmt.Fprintf(&cu, " ((_ is %s) a)", c.Con)
					fmt.Fprintf(&uv, "(ite ((_ is %s) a) (%s a) ", c.Con, c.Sel)
					nu++
				}
			case *types.Slice:
				if b, ok := ut.Elem().Underlying().(*types.Basic); ok && b.Kind() == types.Uint8 {
					fmt.Fprintf(&cb, " ((_ is %s) a)", c.Con)
					fmt.Fprintf(&bv, "(ite ((_ is %s) a) (%s a) ", c.Con, c.Sel)
					nb++
				}
			}
		}
		ci.WriteString("))\n")
		cu.WriteString("))\n")
		cb.WriteString("))\n")
		iv.WriteString("(other_int a)" + strings.Repeat(")", ni) + ")\n")
		uv.WriteString("(other_int a)" + strings.Repeat(")", nu) + ")\n")
		bv.WriteString("(other_bytes a)" + strings.Repeat(")", nb) + ")\n")
		sb.WriteString(ci.String() + cu.String() + cb.String() + iv.String() + uv.String() + bv.String())
		// the non-scalar values the CBOR decoder puts into an interface (cbor.Tag, big.Int: structs) are neither integers nor byte slices
		fmt.Fprintf(&sb, "(assert (and (not (other_canint %d)) (not (other_canuint %d)) (not (other_isbytes %d))))\n", tidDecOther, tidDecOther, tidDecOther)
	}
	// any_hashable
	var hb strings.Builder
	hb.WriteString("(define-fun any_hashable ((a Any)) Bool (and (=> ((_ is A_other) a) (other_hashable (other_tid a)))")
	for _, c := range cons {
		if !types.Comparable(c.T) {
			fmt.Fprintf(&hb, " (not ((_ is %s) a))", c.Con)
		}
	}
	hb.WriteString("))\n")
	sb.WriteString(hb.String())
	return sb.String()
}

// payloadInv: type invariant of a payload, in prelude syntax (alloc is the bound variable "alloc").
func (e *Engine) payloadInv(v Term, t types.Type, depth int) Term {
	alloc := Term{"alloc", SInt}
	switch ut := t.Underlying().(type) {
	case *types.Basic:
		if ut.Info()&types.IsInteger != 0 {
			return InRange(v, t)
		}
		if ut.Info()&types.IsString != 0 {
			return Le(App(SInt, "str_len", v), BigLit("281474976710656"))
		}
		return True
	case *types.Pointer:
		return And(Lt(App(SInt, "aobj", v), alloc), Implies(Eq(App(SInt, "aobj", v), IntLit(0)), Eq(v, NilAddr)))
	case *types.Slice:
		return App(SBool, "slice_ok", v, alloc)
	case *types.Map:
		return Lt(v, alloc)
	case *types.Struct:
		if depth <= 0 {
			return True
		}
		si := e.reg.Struct(t)
		var cs []Term
		for i, f := range si.Fields {
			ft := ut.Field(i).Type()
			if _, isIface := ft.Underlying().(*types.Interface); isIface {
				continue // would be recursive
			}
			cs = append(cs, e.payloadInv(App(f.Sort, f.Sel, v), ft, depth-1))
		}
		return And(cs...)
	}
	return True
}

// stringDecls: declarations for string literals used so far.
func (e *Engine) stringDecls() string {
	var sb strings.Builder
	var names []string
	for i, s := range e.strList {
		n := fmt.Sprintf("strlit!%d", i)
		names = append(names, n)
		fmt.Fprintf(&sb, "(declare-const %s Str) ; %q\n", n, truncate(s, 40))
		fmt.Fprintf(&sb, "(assert (= (str_len %s) %d))\n", n, len(s))
		if len(s) <= 24 {
			for j := 0; j < len(s); j++ {
				fmt.Fprintf(&sb, "(assert (= (str_at %s %d) %d))\n", n, j, s[j])
			}
		}
	}
	if len(names) > 1 {
		fmt.Fprintf(&sb, "(assert (distinct %s))\n", strings.Join(names, " "))
	}
	return sb.String()
}

func truncate(s string, n int) string {
	if len(s) > n {
		return s[:n] + "..."
	}
	return s
}

func (e *Engine) extraDecls() string {
	var sb strings.Builder
	names := append([]string(nil), e.extraOrd...)
	sort.Strings(names)
	for _, n := range names {
		sb.WriteString(e.extraFns[n])
		sb.WriteString("\n")
	}
	return sb.String()
}
