package main

import (
	"fmt"
	"go/types"
	"sort"
	"strings"
)

// State is a symbolic program state: a path condition plus the current term
// of every heap component. States are treated as immutable; Clone before
// changing.
type State struct {
	pc    Term
	comps map[string]Term
	// parts: when the state is a join of several paths, their (absolute) path conditions; pc is their disjunction.
	// Used to split a hard obligation into one query per incoming path.
	parts []Term
}

func (s *State) Clone() *State {
	n := &State{pc: s.pc, comps: make(map[string]Term, len(s.comps)), parts: s.parts}
	for k, v := range s.comps {
		n.comps[k] = v
	}
	return n
}

// Component names:
//   H:<sort>        (Array Addr sort)            scalar cells addressed by pointer
//   E:<sort>        (Array Int (Array Int sort)) element stores of arrays / slices
//   MD:<K>:<V>      (Array Int (Array K Bool))   map domains
//   MV:<K>:<V>      (Array Int (Array K V))      map values
//   ML              (Array Int Int)              map lengths
//   BIG             (Array Addr Int)             abstract value of a big.Int
//   alloc           Int                          allocation counter
//   epoch           Int                          interface-call epoch
//   G:<name>        sort                         ghost variable (e.g. seen set of a map iterator)

func compSort(name string) Sort {
	switch {
	case strings.HasPrefix(name, "H:"):
		return ArraySort(SAddr, Sort(name[2:]))
	case strings.HasPrefix(name, "E:"):
		return ArraySort(SInt, ArraySort(SInt, Sort(name[2:])))
	case strings.HasPrefix(name, "MD:"):
		k, _ := splitKV(name[3:])
		return ArraySort(SInt, ArraySort(k, SBool))
	case strings.HasPrefix(name, "MV:"):
		k, v := splitKV(name[3:])
		return ArraySort(SInt, ArraySort(k, v))
	case name == "ML":
		return ArraySort(SInt, SInt)
	case name == "BIG":
		return ArraySort(SAddr, SInt)
	case name == "alloc", name == "epoch", name == "vepoch":
		return SInt
	case strings.HasPrefix(name, "G:"):
		// G:<sort>:<name>
		srt, _ := splitSortPrefix(name[2:])
		return srt
	}
	panic("compSort: " + name)
}

func splitKV(s string) (Sort, Sort) {
	k, rest := splitSortPrefix(s)
	return k, Sort(rest)
}

// splitSortPrefix splits "<sort>:<rest>" where sort may be parenthesised.
func splitSortPrefix(s string) (Sort, string) {
	var k string
	if strings.HasPrefix(s, "(") {
		k = firstSexp(s)
	} else if i := strings.IndexByte(s, ':'); i >= 0 {
		k = s[:i]
	} else {
		k = s
	}
	return Sort(k), strings.TrimPrefix(s[len(k):], ":")
}

func compKeys(m map[string]Term) []string {
	ks := make([]string, 0, len(m))
	for k := range m {
		ks = append(ks, k)
	}
	sort.Strings(ks)
	return ks
}

// Unit is one verification unit: one function executed under its contract,
// with the SMT context accumulated while executing it.
type Unit struct {
	eng   *Engine
	name  string
	cmds  []string
	obls  []*Obligation
	nfr   int
	init0 map[string]Term // initial term of each heap component (declared lazily)
	depth int
	stats struct{ inlined, contractCalls, externCalls int }
	usedExterns map[string]bool
	usedContracts map[string]bool
	genPanics bool
	isInit bool
	errs  []string
	seenAsserts map[string]bool
	wfSeen map[string]bool
}

type Obligation struct {
	Name   string // function.label or function.kind@detail
	Func   string
	Kind   string // requires, ensures, invariant, panic, modifies, lemma, assert
	Label  string
	Pos    string
	Prefix int // number of unit cmds that precede it
	PC     Term
	Goal   Term
	Unit   *Unit
	Tags   []string
	// result
	Status  string // unsat(discharged) / sat / unknown / timeout / error
	Solver  string
	Time    float64
	Model   string
	Trivial bool
	Parts  []Term // path conditions of the joined paths (PC is their disjunction), if any
	Vacuity bool // expected to be undischarged: discharged means the context is contradictory
	Restricted bool // goal checked under a known-finding restriction
	KFWhat  string
}

func (u *Unit) fresh(prefix string, s Sort) Term {
	u.nfr++
	name := sym(fmt.Sprintf("%s!%d", prefix, u.nfr))
	u.cmds = append(u.cmds, fmt.Sprintf("(declare-const %s %s)", name, s))
	return Term{name, s}
}

// define introduces a named constant equal to t (keeps terms small).
func (u *Unit) define(prefix string, t Term) Term {
	if len(t.S) < 40 && !strings.HasPrefix(t.S, "(ite") {
		return t
	}
	u.nfr++
	name := sym(fmt.Sprintf("%s!%d", prefix, u.nfr))
	u.cmds = append(u.cmds, fmt.Sprintf("(define-fun %s () %s %s)", name, t.Sort, t.S))
	return Term{name, t.Sort}
}

func (u *Unit) assume(pc Term, fact Term) {
	f := Implies(pc, fact)
	if f.S == "true" {
		return
	}
	c := fmt.Sprintf("(assert %s)", f.S)
	if u.seenAsserts == nil {
		u.seenAsserts = map[string]bool{}
	}
	if u.seenAsserts[c] {
		return // already part of the context (every obligation sees all earlier commands)
	}
	u.seenAsserts[c] = true
	u.cmds = append(u.cmds, c)
}

func (u *Unit) comment(s string) {
	u.cmds = append(u.cmds, "; "+strings.ReplaceAll(s, "\n", " "))
}

func (u *Unit) oblige(st *State, kind, fn, label, pos string, goal Term, tags []string) *Obligation {
	o := &Obligation{Func: fn, Kind: kind, Label: label, Pos: pos, Prefix: len(u.cmds), PC: st.pc, Goal: goal, Unit: u, Tags: tags, Parts: st.parts}
	o.Name = fn + "." + label
	u.obls = append(u.obls, o)
	return o
}

// comp returns the current term of a heap component in st, declaring the
// initial constant on first use.
func (u *Unit) comp(st *State, name string) Term {
	if t, ok := st.comps[name]; ok {
		return t
	}
	t, ok := u.init0[name]
	if !ok {
		srt := compSort(name)
		cname := sym("init!" + name)
		u.cmds = append(u.cmds, fmt.Sprintf("(declare-const %s %s)", cname, srt))
		t = Term{cname, srt}
		u.init0[name] = t
		if name == "alloc" {
			u.cmds = append(u.cmds, fmt.Sprintf("(assert (>= %s 1))", cname))
		}
		if name == "ML" {
			u.cmds = append(u.cmds, fmt.Sprintf("(assert (= (select %s 0) 0))", cname))
			u.cmds = append(u.cmds, fmt.Sprintf("(assert (forall ((i Int)) (! (>= (select %s i) 0) :pattern ((select %s i)))))", cname, cname))
		}
	}
	return t
}

func (u *Unit) setComp(st *State, name string, t Term) {
	st.comps[name] = u.define("h", t)
}

// merge joins states (disjoint path conditions).
func (u *Unit) merge(states []*State) *State {
	var live []*State
	for _, s := range states {
		if s != nil && s.pc.S != "false" {
			live = append(live, s)
		}
	}
	if len(live) == 0 {
		return nil
	}
	if len(live) == 1 {
		return live[0]
	}
	pcs := make([]Term, len(live))
	for i, s := range live {
		pcs[i] = s.pc
	}
	out := &State{pc: u.define("pc", Or(pcs...)), comps: map[string]Term{}}
	for _, s := range live {
		if len(s.parts) > 0 {
			// earlier joins on this path: refine each of their cases by this path's own condition
			for _, p := range s.parts {
				out.parts = append(out.parts, u.define("pc", And(p, s.pc)))
			}
		} else {
			out.parts = append(out.parts, s.pc)
		}
	}
	if len(out.parts) > 8 {
		out.parts = nil
	}
	names := map[string]bool{}
	for _, s := range live {
		for k := range s.comps {
			names[k] = true
		}
	}
	keys := make([]string, 0, len(names))
	for k := range names {
		keys = append(keys, k)
	}
	sort.Strings(keys)
	for _, k := range keys {
		var t Term
		for i := len(live) - 1; i >= 0; i-- {
			v := u.comp(live[i], k)
			if i == len(live)-1 {
				t = v
			} else {
				t = Ite(live[i].pc, v, t)
			}
		}
		out.comps[k] = u.define("h", t)
	}
	return out
}

// mergeVals merges values along joined states (used for function returns).
func mergeTerms(states []*State, vals []Term) Term {
	var t Term
	for i := len(states) - 1; i >= 0; i-- {
		if i == len(states)-1 {
			t = vals[i]
		} else {
			t = Ite(states[i].pc, vals[i], t)
		}
	}
	return t
}

// ---- heap access ----

func hcomp(s Sort) string { return "H:" + string(s) }
func ecomp(s Sort) string { return "E:" + string(s) }

func isBigInt(t types.Type) bool {
	n, ok := t.(*types.Named)
	return ok && n.Obj().Pkg() != nil && n.Obj().Pkg().Path() == "math/big" && n.Obj().Name() == "Int"
}

// loadType reads a value of Go type t from address a.
func (u *Unit) loadType(st *State, a Term, t types.Type) Term {
	reg := u.eng.reg
	if s, ok := t.Underlying().(*types.Struct); ok {
		si := reg.Struct(t)
		args := make([]Term, s.NumFields())
		for i := range args {
			args[i] = u.loadType(st, FieldAddrT(a, i), s.Field(i).Type())
		}
		return App(Sort(si.Name), "mk_"+si.Name, args...)
	}
	if _, ok := t.Underlying().(*types.Array); ok {
		// array value: represented by the element store id
		return App(SInt, "aobj", a)
	}
	srt := reg.SortOf(t)
	v := Select(u.comp(st, hcomp(srt)), a)
	return v
}

func (u *Unit) storeType(st *State, a Term, t types.Type, v Term) {
	reg := u.eng.reg
	if s, ok := t.Underlying().(*types.Struct); ok {
		si := reg.Struct(t)
		for i := 0; i < s.NumFields(); i++ {
			fv := App(si.Fields[i].Sort, si.Fields[i].Sel, v)
			u.storeType(st, FieldAddrT(a, i), s.Field(i).Type(), fv)
		}
		return
	}
	if _, ok := t.Underlying().(*types.Array); ok {
		panic("store of array value unsupported")
	}
	srt := reg.SortOf(t)
	c := hcomp(srt)
	u.setComp(st, c, Store(u.comp(st, c), a, v))
}

// typeInv returns the invariant every value of Go type t satisfies, given the
// allocation bound alloc (references point to objects allocated before it).
func (u *Unit) typeInv(v Term, t types.Type, alloc Term) Term {
	switch ut := t.Underlying().(type) {
	case *types.Basic:
		if ut.Info()&types.IsInteger != 0 {
			return InRange(v, t)
		}
		if ut.Info()&types.IsString != 0 {
			// a Go string value occupies at most 2^48 bytes (runtime maxAlloc)
			return And(Ge(App(SInt, "str_len", v), IntLit(0)), Le(App(SInt, "str_len", v), BigLit("281474976710656")))
		}
		return True
	case *types.Pointer:
		inv := And(Lt(App(SInt, "aobj", v), alloc),
			Implies(Eq(App(SInt, "aobj", v), IntLit(0)), Eq(v, NilAddr)))
		if isMsgStruct(ut.Elem()) {
			inv = And(inv, Implies(Neq(App(SInt, "aobj", v), IntLit(0)), App(SBool, "is_msg_obj", App(SInt, "aobj", v))))
		}
		if isSigStruct(ut.Elem()) {
			// a Signature / Countersignature is its own object, never part of a message object
			inv = And(inv, Not(App(SBool, "is_msg_obj", App(SInt, "aobj", v))))
		}
		return inv
	case *types.Slice:
		return App(SBool, "slice_ok", v, alloc)
	case *types.Map:
		return Lt(v, alloc)
	case *types.Interface:
		return App(SBool, "any_ok", v, alloc)
	case *types.Struct:
		si := u.eng.reg.Struct(t)
		var cs []Term
		for i, f := range si.Fields {
			cs = append(cs, u.typeInv(App(f.Sort, f.Sel, v), ut.Field(i).Type(), alloc))
		}
		return And(cs...)
	case *types.Signature:
		return True
	}
	return True
}

// isMsgStruct: top-level message structures, which are never header values.
func isMsgStruct(t types.Type) bool {
	n, ok := t.(*types.Named)
	if !ok || n.Obj().Pkg() == nil || n.Obj().Pkg().Path() != "github.com/veraison/go-cose" {
		return false
	}
	switch n.Obj().Name() {
	case "Sign1Message", "UntaggedSign1Message", "SignMessage":
		return true
	}
	return false
}

func isSigStruct(t types.Type) bool {
	n, ok := t.(*types.Named)
	if !ok || n.Obj().Pkg() == nil || n.Obj().Pkg().Path() != "github.com/veraison/go-cose" {
		return false
	}
	switch n.Obj().Name() {
	case "Signature", "Countersignature":
		return true
	}
	return false
}
