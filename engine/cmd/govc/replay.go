package main

import (
	"bytes"
	"context"
	"encoding/json"
	"fmt"
	"os"
	"os/exec"
	"path/filepath"
	"strings"
	"time"
)

type ReplayResult struct {
	Reproduced bool   `json:"reproduced"`
	TestName   string `json:"test_name,omitempty"`
	GoTest     string `json:"go_test,omitempty"`
	Output     string `json:"output,omitempty"`
	Model      string `json:"model,omitempty"`
	Note       string `json:"note,omitempty"`
}

// tryReplay: obtain a model for the failed obligation (quantified prelude
// axioms dropped, so the model is only a candidate) and run the matching
// replay template against the real code.
func tryReplay(e *Engine, o runOpts, ob *Obligation, query string) (rr *ReplayResult) {
	tmpl, ok := replayTemplates[ob.Func]
	if !ok {
		return nil
	}
	defer func() {
		if r := recover(); r != nil {
			rr = nil // a failed replay attempt never changes the verdict
		}
	}()
	return tmpl(e, o, ob, "")
}

type replayTemplate func(e *Engine, o runOpts, ob *Obligation, model string) *ReplayResult

var replayTemplates = map[string]replayTemplate{}

// findModel asks z3 for a model of the query with quantified assertions removed.
func findModel(o runOpts, query string) string {
	var sb strings.Builder
	for _, ln := range strings.Split(query, "\n") {
		if strings.HasPrefix(ln, "(assert (forall") || strings.HasPrefix(ln, "(check-sat)") {
			continue
		}
		sb.WriteString(ln)
		sb.WriteString("\n")
	}
	sb.WriteString("(check-sat)\n(get-model)\n")
	f := filepath.Join(o.verifDir, ".cache", "work", fmt.Sprintf("model_%d.smt2", time.Now().UnixNano()))
	os.MkdirAll(filepath.Dir(f), 0o755)
	os.WriteFile(f, []byte(sb.String()), 0o644)
	defer os.Remove(f)
	ctx, cancel := context.WithTimeout(context.Background(), 20*time.Second)
	defer cancel()
	out, _ := exec.CommandContext(ctx, "z3-new", "-T:15", f).CombinedOutput()
	if !strings.HasPrefix(string(out), "sat") {
		return ""
	}
	return string(out)
}

// runReplayTest injects an in-package test with go test -overlay and runs it.
// The test must print REPRODUCED when the property violation shows on the real code.
func runReplayTest(repo, testSrc, testName string) (string, bool) {
	dir, err := os.MkdirTemp("", "govc-replay-")
	if err != nil {
		return err.Error(), false
	}
	defer os.RemoveAll(dir)
	tf := filepath.Join(dir, "zz_replay_test.go")
	os.WriteFile(tf, []byte(testSrc), 0o644)
	ov := map[string]any{"Replace": map[string]string{filepath.Join(repo, "zz_replay_test.go"): tf}}
	data, _ := json.Marshal(ov)
	of := filepath.Join(dir, "overlay.json")
	os.WriteFile(of, data, 0o644)
	ctx, cancel := context.WithTimeout(context.Background(), 120*time.Second)
	defer cancel()
	cmd := exec.CommandContext(ctx, "go", "test", "-overlay", of, "-vet=off", "-count=1", "-timeout", "60s", "-run", "^"+testName+"$", "-v", ".")
	cmd.Dir = repo
	cmd.Env = append(os.Environ(), "GOFLAGS=-mod=mod", "GOPROXY=off", "GOSUMDB=off", "GOTOOLCHAIN=local")
	var out bytes.Buffer
	cmd.Stdout = &out
	cmd.Stderr = &out
	cmd.Run()
	s := out.String()
	return truncate(s, 6000), strings.Contains(s, "REPRODUCED")
}
