package main

import (
	"encoding/json"
	"fmt"
	"os"
	"path/filepath"
	"sort"
	"strconv"
	"strings"

	"golang.org/x/tools/go/ssa"
)

type propResult struct {
	units    []*Unit
	obls     []*Obligation
	funcs    []string
	engErrs  []string
	pool     *SolverPool
	wall     float64
	lemmaCnt int
	notes    []string
	engine   *Engine
}

func clauseTagged(c *Contract, prop string) bool {
	for _, cl := range c.Clauses {
		for _, t := range cl.Tags {
			if t == prop {
				return true
			}
		}
	}
	return false
}

func runProperty(e *Engine, o runOpts) *propResult {
	res := runPropertyOnce(e, o)
	if len(res.engErrs) > 0 {
		return res
	}
	// Which failures belong to this property? Obligations of clauses tagged with it, of untagged (shared) clauses,
	// panic / precondition obligations (C06), lemmas. Failing clauses that belong only to OTHER properties are
	// withdrawn from the assumptions and the check is repeated (to a fixpoint: withdrawing a callee's clause can make
	// a caller's clause fail in turn): if everything of this property still discharges, its proof does not depend
	// on them and the property holds on this tree.
	var notes []string
	for pass := 0; pass < 3; pass++ {
		var foreign []*Obligation
		own := 0
		for _, ob := range res.obls {
			if ob.Vacuity || strings.HasSuffix(ob.Name, "!unrestricted") || ob.Status == "unsat" {
				continue
			}
			if obligationOwned(ob, o.prop) {
				own++
			} else {
				lbl := ob.Label
				if i := strings.Index(lbl, "@"); i >= 0 {
					lbl = lbl[:i]
				}
				if !droppedClauses[ob.Func+"."+lbl] {
					foreign = append(foreign, ob)
				}
			}
		}
		if own > 0 || len(foreign) == 0 {
			break
		}
		for _, ob := range foreign {
			lbl := ob.Label
			if i := strings.Index(lbl, "@"); i >= 0 {
				lbl = lbl[:i]
			}
			if droppedClauses[ob.Func+"."+lbl] {
				continue
			}
			droppedClauses[ob.Func+"."+lbl] = true
			notes = append(notes, fmt.Sprintf("clause %s.%s (properties %v) is not discharged on this tree; it is not part of %s and was withdrawn from the assumptions for another pass", ob.Func, lbl, ob.Tags, o.prop))
		}
		e2, err := load(o)
		if err != nil {
			res.engErrs = append(res.engErrs, "reload: "+err.Error())
			return res
		}
		res = runPropertyOnce(e2, o)
		res.engine = e2
		if len(res.engErrs) > 0 {
			break
		}
	}
	res.notes = notes
	res.obls = filterOwned(res.obls, o.prop)
	return res
}

// obligationOwned: does a failure of this obligation count against property prop?
func obligationOwned(ob *Obligation, prop string) bool {
	switch ob.Kind {
	case "panic":
		return prop == "C06"
	case "lemma", "vacuity", "requires":
		return true
	}
	if len(ob.Tags) == 0 {
		return true
	}
	for _, t := range ob.Tags {
		if t == prop {
			return true
		}
	}
	return false
}

func filterOwned(obls []*Obligation, prop string) []*Obligation {
	var out []*Obligation
	for _, ob := range obls {
		if ob.Status == "unsat" || ob.Vacuity || obligationOwned(ob, prop) {
			out = append(out, ob)
		}
	}
	return out
}

func runPropertyOnce(e *Engine, o runOpts) *propResult {
	res := &propResult{engine: e}
	prop := o.prop
	genPanics := prop == "C06"
	todo := []string{}
	seen := map[string]bool{}
	if genPanics {
		for _, n := range e.sortedFuncNames() {
			todo = append(todo, n)
		}
	} else {
		for _, c := range e.specs.Order {
			if c.Extern {
				continue
			}
			if clauseTagged(c, prop) {
				todo = append(todo, c.Func)
			}
		}
	}
	for len(todo) > 0 {
		n := todo[0]
		todo = todo[1:]
		if seen[n] {
			continue
		}
		seen[n] = true
		fn, ok := e.funcs[n]
		if !ok {
			res.engErrs = append(res.engErrs, "contract names a function that does not exist: "+n)
			continue
		}
		if c := e.specs.Contracts[n]; c != nil && c.Trusted {
			continue
		}
		u, err := e.VerifyFunction(fn, genPanics)
		if err != nil {
			res.engErrs = append(res.engErrs, err.Error())
			continue
		}
		res.engErrs = append(res.engErrs, u.errs...)
		res.units = append(res.units, u)
		res.funcs = append(res.funcs, n)
		var used []string
		for k := range u.usedContracts {
			used = append(used, k)
		}
		sort.Strings(used)
		for _, k := range used {
			if !seen[k] {
				todo = append(todo, k)
			}
		}
	}
	// lemmas
	lu := e.lemmaUnit(prop)
	if lu != nil {
		res.units = append(res.units, lu)
		res.lemmaCnt = len(lu.obls)
		res.engErrs = append(res.engErrs, lu.errs...)
	}
	res.engErrs = append(res.engErrs, e.loadErrs...)
	res.pool = NewSolverPool(filepath.Join(o.verifDir, ".cache"), filepath.Join(o.verifDir, ".cache", "work"), !o.noCache && o.tier != "thorough")
	units := res.units
	if o.only != "" {
		keep := map[string]bool{}
		for _, n := range strings.Split(o.only, ",") {
			keep[n] = true
		}
		units = nil
		for _, u := range res.units {
			if keep[u.name] || u.name == "lemmas" {
				units = append(units, u)
			}
		}
	}
	res.obls = dischargeAll(e, units, o, res.pool)
	return res
}

// lemmaUnit: lemmas tagged with prop become obligations over the axioms and spec definitions only.
func (e *Engine) lemmaUnit(prop string) *Unit {
	var ls []*Axiom
	for _, l := range e.specs.Lemmas {
		for _, t := range l.Tags {
			if t == prop {
				ls = append(ls, l)
			}
		}
	}
	if len(ls) == 0 {
		return nil
	}
	u := &Unit{eng: e, name: "lemmas", init0: map[string]Term{}, usedExterns: map[string]bool{}, usedContracts: map[string]bool{}}
	st := &State{pc: True, comps: map[string]Term{}}
	for _, l := range ls {
		env := &SEnv{u: u, cur: st, old: st, vars: map[string]*SVal{}, fn: "lemma " + l.Label, pc: True}
		t, err := env.EvalBool(l.Expr)
		if err != nil {
			u.errs = append(u.errs, fmt.Sprintf("lemma %s: %v", l.Label, err))
			continue
		}
		u.oblige(st, "lemma", "lemma", l.Label, fmt.Sprintf("contracts:%d", l.Line), t, l.Tags)
	}
	return u
}

func reportProperty(e *Engine, o runOpts, res *propResult) int {
	prop := o.prop
	if res.engine != nil {
		e = res.engine
	}
	for _, n := range res.notes {
		fmt.Println("NOTE:", n)
	}
	seed, _ := strconv.Atoi(os.Getenv("VERIF_SEED"))
	evPath := filepath.Join(o.outDir, "evidence", prop+".json")
	os.MkdirAll(filepath.Dir(evPath), 0o755)
	if len(res.engErrs) > 0 {
		for _, m := range res.engErrs {
			fmt.Printf("MACHINERY-ERROR %s\n", m)
		}
		return 2
	}
	if len(res.obls) == 0 {
		fmt.Printf("MACHINERY-ERROR no obligations generated for %s (vacuous check)\n", prop)
		return 2
	}
	violations := 0
	discharged := 0
	nontrivial := 0
	var samples []any
	var failed []*Obligation
	known := 0
	bySolver := map[string]int{}
	twoAgree := 0
	solverTime := 0.0
	vacChecked, vacuous, deadSites := 0, 0, 0
	var deadList []string
	for _, m := range vacuityReport(res.obls) {
		fmt.Println(m)
		vacuous++
	}
	for _, ob := range res.obls {
		if ob.Vacuity {
			vacChecked++
			if ob.Status == "unsat" {
				deadSites++
				deadList = append(deadList, ob.Name+" at "+ob.Pos)
			}
			continue
		}
		isTwin := strings.HasSuffix(ob.Name, "!unrestricted")
		if isTwin {
			if ob.Status != "unsat" {
				fmt.Printf("KNOWN-FINDING: property=%s %s: %s\n", prop, strings.TrimSuffix(ob.Name, "!unrestricted"), ob.KFWhat)
				known++
			} else {
				fmt.Printf("note: known finding %s no longer reproduces (obligation discharges unrestricted)\n", ob.Name)
			}
			continue
		}
		solverTime += ob.Time
		if ob.Status == "unsat" {
			discharged++
			if !ob.Trivial {
				nontrivial++
				bySolver[strings.SplitN(strings.TrimSuffix(ob.Solver, "(cached)"), "+", 2)[0]]++
				if strings.Contains(ob.Solver, "+") {
					twoAgree++
				}
			}
			if len(samples) < 6 && !ob.Trivial {
				samples = append(samples, map[string]any{"obligation": ob.Name, "kind": ob.Kind, "at": ob.Pos, "goal": truncate(ob.Goal.S, 400), "answer": "unsat", "solver": ob.Solver})
			}
			continue
		}
		failed = append(failed, ob)
	}
	total := 0
	for _, ob := range res.obls {
		if !strings.HasSuffix(ob.Name, "!unrestricted") && !ob.Vacuity {
			total++
		}
	}
	if vacuous > 0 {
		return 2
	}
	prelude := e.FullPrelude()
	for _, ob := range failed {
		violations++
		rp := writeReplay(e, o, prop, ob, prelude)
		suffix := ""
		if !rp.reproduced {
			suffix = " no-failing-input-found"
		}
		fmt.Printf("VIOLATION property=%s replay=%s obligation=%s (%s by %s)%s\n", prop, rp.path, ob.Name, ob.Status, ob.Solver, suffix)
	}
	// assumptions
	assume := map[string]bool{}
	for _, u := range res.units {
		for k := range u.usedExterns {
			doc := externDocs[k]
			if strings.HasPrefix(k, "invoke ") {
				parts := strings.Split(strings.TrimPrefix(k, "invoke "), ".")
				if len(parts) >= 2 {
					short := parts[len(parts)-2] + "." + parts[len(parts)-1]
					if i := strings.LastIndex(parts[len(parts)-2], "/"); i >= 0 {
						short = parts[len(parts)-2][i+1:] + "." + parts[len(parts)-1]
					}
					for dk, dv := range invokeDocs {
						if strings.HasSuffix(short, dk) || strings.HasSuffix(dk, short) {
							doc = dv
						}
					}
				}
			}
			assume["assumed contract of "+k+": "+doc] = true
		}
	}
	for w := range e.warnings {
		assume["engine note: "+w] = true
	}
	for _, a := range e.specs.Axioms {
		assume["axiom "+a.Label+": "+a.Src] = true
	}
	for _, c := range e.specs.Order {
		if c.Trusted {
			assume["trusted (bounded-checked, not proved) contract: "+c.Func] = true
		}
	}
	assume["integers are mathematical with exact Go wrap-around on every fixed-width operation (no machine-arithmetic-as-mathematical assumption)"] = true
	assume["go/ssa (x/tools v0.29.0) builds the SSA that is verified from /repo's working tree; the SSA builder is trusted"] = true
	assume["caller-supplied Signer/Verifier/crypto.Signer/io.Reader implementations do not write memory reachable from their arguments"] = true
	assume["package-level variables are written only by init (checked as obligation globals_write_once for C18); byte tables such as sign1MessagePrefix are never modified"] = true
	var as []string
	for k := range assume {
		as = append(as, k)
	}
	sort.Strings(as)
	sort.Strings(res.funcs)
	cov := map[string]any{
		"obligations":            total,
		"discharged":             discharged,
		"nontrivial_discharged":  nontrivial,
		"checker_cmd":            fmt.Sprintf("bin/govc check --property %s --tier %s (queries raced on z3 4.8.12, z3-new 5.1.0, cvc5 1.0; per-query timeout %s)", prop, o.tier, o.timeout),
		"trusted_base":           as,
		"functions_under_contract": res.funcs,
		"lemmas":                 res.lemmaCnt,
		"discharged_by_solver":   bySolver,
		"two_solver_agreement":   twoAgree,
		"solver_time_s":          solverTime,
		"solver_queries":         res.pool.queries,
		"cache_hits":             res.pool.cached,
		"known_findings_reported": known,
		"vacuity_checks":          vacChecked,
		"unreachable_return_sites": deadSites,
		"unreachable_return_site_list": deadList,
		"slowest_obligations":     slowest(res.obls, 10),
		"vacuity_note":            "for every return site of every function under contract the query 'assumptions ==> false' was posed; a function whose return sites are ALL unreachable is reported as a machinery error (contradictory assumptions); single unreachable sites are dead error handling",
		"samples":                samples,
		"explanation":            "every obligation is a verification condition generated from the SSA of /repo's current working tree for the functions listed, against the contracts in /repo/contracts_verif.go; discharged = answered unsat",
	}
	if len(samples) == 0 {
		cov["samples"] = []any{map[string]any{"note": "no non-trivial obligation discharged"}}
	}
	ev := Evidence{PropertyID: prop, Tier: o.tier, Seed: seed, Level: "proof", Coverage: cov, Assumptions: as, WallS: res.wall, Violations: violations}
	data, _ := json.MarshalIndent(ev, "", " ")
	os.WriteFile(evPath, data, 0o644)
	fmt.Printf("property %s: %d/%d obligations discharged over %d functions (%d known findings), %.1fs\n", prop, discharged, total, len(res.funcs), known, res.wall)
	if violations > 0 {
		return 1
	}
	return 0
}

type replayInfo struct {
	path       string
	reproduced bool
}

func writeReplay(e *Engine, o runOpts, prop string, ob *Obligation, prelude string) replayInfo {
	dir := filepath.Join(o.outDir, "replays", prop)
	os.MkdirAll(dir, 0o755)
	path := filepath.Join(dir, mangle(ob.Name)+".json")
	q := e.Query(ob, prelude)
	qpath := filepath.Join(dir, mangle(ob.Name)+".smt2")
	os.WriteFile(qpath, []byte(q), 0o644)
	rep := map[string]any{
		"property":      prop,
		"obligation":    ob.Name,
		"kind":          ob.Kind,
		"function":      ob.Func,
		"at":            ob.Pos,
		"solver_status": ob.Status,
		"solver":        ob.Solver,
		"solver_output": truncate(ob.Model, 4000),
		"query":         qpath,
		"goal":          truncate(ob.Goal.S, 2000),
	}
	info := replayInfo{path: path}
	rr := tryReplay(e, o, ob, q)
	if rr != nil {
		rep["replay"] = rr
		if rr.Reproduced {
			info.reproduced = true
		}
	} else {
		rep["replay"] = "no-failing-input-found: no replay template / model for this obligation"
	}
	data, _ := json.MarshalIndent(rep, "", " ")
	os.WriteFile(path, data, 0o644)
	return info
}

func cmdReplay(o runOpts, args []string) int {
	if len(args) < 1 {
		fmt.Fprintln(os.Stderr, "replay: path required")
		return 2
	}
	data, err := os.ReadFile(args[0])
	if err != nil {
		fmt.Fprintln(os.Stderr, err)
		return 2
	}
	var rep map[string]any
	json.Unmarshal(data, &rep)
	if rr, ok := rep["replay"].(map[string]any); ok {
		if t, ok := rr["go_test"].(string); ok {
			out, ok2 := runReplayTest(o.repo, t, fmt.Sprint(rr["test_name"]))
			fmt.Println(out)
			if ok2 {
				fmt.Println("REPRODUCED")
				return 1
			}
			return 0
		}
	}
	fmt.Println(string(data))
	return 0
}

var _ = ssa.NewProgram

// slowest: the n obligations with the largest solver time of this run (name, seconds, deciding back end)
func slowest(obls []*Obligation, n int) []map[string]any {
	var xs []*Obligation
	for _, ob := range obls {
		if !ob.Vacuity && !ob.Trivial {
			xs = append(xs, ob)
		}
	}
	sort.Slice(xs, func(i, j int) bool { return xs[i].Time > xs[j].Time })
	if len(xs) > n {
		xs = xs[:n]
	}
	var out []map[string]any
	for _, ob := range xs {
		out = append(out, map[string]any{"obligation": ob.Name, "seconds": float64(int(ob.Time*100)) / 100, "decided_by": ob.Solver})
	}
	return out
}
