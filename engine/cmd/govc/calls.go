package main

import (
	"fmt"
	"go/types"
	"sort"
	"strings"

	"golang.org/x/tools/go/ssa"
)

const maxInlineDepth = 12

func (u *Unit) call(fr *Frame, st *State, x *ssa.Call) *State {
	c := x.Call
	if c.IsInvoke() {
		return u.invoke(fr, st, x)
	}
	switch f := c.Value.(type) {
	case *ssa.Builtin:
		return u.builtin(fr, st, x, f)
	case *ssa.Function:
		args := make([]*Val, len(c.Args))
		for i, a := range c.Args {
			args[i] = u.operand(fr, a)
		}
		return u.callFunction(fr, st, x, f, nil, args)
	case *ssa.MakeClosure:
		clo := u.operand(fr, f).Clo
		args := make([]*Val, len(c.Args))
		for i, a := range c.Args {
			args[i] = u.operand(fr, a)
		}
		return u.callFunction(fr, st, x, clo.Fn, clo.Bindings, args)
	default:
		v := u.operand(fr, c.Value)
		if v.Clo != nil {
			args := make([]*Val, len(c.Args))
			for i, a := range c.Args {
				args[i] = u.operand(fr, a)
			}
			return u.callFunction(fr, st, x, v.Clo.Fn, v.Clo.Bindings, args)
		}
	}
	panic("call of unknown function value: " + x.String() + " in " + fnName(fr.fn))
}

func (u *Unit) setResults(fr *Frame, x *ssa.Call, res []*Val) {
	sig := x.Call.Signature()
	switch sig.Results().Len() {
	case 0:
		fr.vals[x] = &Val{T: Term{"unit", SUnit}}
	case 1:
		fr.vals[x] = res[0]
	default:
		fr.vals[x] = &Val{Tuple: res}
	}
}

// contractFor returns the contract to use at a call site of fn (nil = inline).
func (u *Unit) contractFor(fn *ssa.Function) *Contract {
	c := u.eng.specs.Contracts[fnName(fn)]
	if c == nil || c.Inline {
		return nil
	}
	// a contract that has only loop invariants does not summarise the function
	has := false
	for _, cl := range c.Clauses {
		if cl.Kind != "invariant" {
			has = true
		}
	}
	if !has && !c.Trusted {
		return nil
	}
	return c
}

// callsiteChecks: obligations attached by the caller's contract to its n-th call of callee.
func (u *Unit) callsiteChecks(fr *Frame, st *State, x *ssa.Call, callee string, args []*Val, argTypes []types.Type) {
	c := u.eng.specs.Contracts[fnName(fr.fn)]
	if c == nil || !fr.top {
		return
	}
	var cls []*Clause
	for _, cl := range c.Clauses {
		if cl.Kind == "callsite" && cl.Callee == callee {
			cls = append(cls, cl)
		}
	}
	if len(cls) == 0 {
		return
	}
	// ordinal of this call among the calls of the same callee in the caller (block order)
	ord := 0
	for _, b := range fr.fn.Blocks {
		for _, ins := range b.Instrs {
			if cc, ok := ins.(*ssa.Call); ok && u.calleeName(cc) == callee {
				ord++
				if cc == x {
					goto found
				}
			}
		}
	}
found:
	// environment: caller parameters, loop variables of the innermost enclosing loop, arg0..argN
	var env *SEnv
	ci := u.eng.cfg(fr.fn)
	var head *ssa.BasicBlock
	best := -1
	for h, body := range ci.loopBody {
		if body[x.Block().Index] && (best < 0 || len(body) < best) {
			best = len(body)
			head = fr.fn.Blocks[h]
		}
	}
	if head != nil {
		phiVals := map[*ssa.Phi]Term{}
		for _, ins := range head.Instrs {
			if phi, ok := ins.(*ssa.Phi); ok {
				if v, ok := fr.vals[phi]; ok {
					phiVals[phi] = v.T
				}
			}
		}
		env = u.invEnv(fr, head, st, phiVals)
	} else {
		env = u.contractEnv(fr.fn, fr.params, nil, st, fr.entry)
		env.fr = fr
	}
	for i, a := range args {
		if a.T.S != "" && i < len(argTypes) {
			env.vars[fmt.Sprintf("arg%d", i)] = &SVal{T: a.T, Go: argTypes[i]}
		}
	}
	for _, cl := range cls {
		if cl.Loop != ord || !cl.visible(u.eng.prop) {
			continue
		}
		cl.used = true
		t, err := env.EvalBool(cl.Expr)
		if err != nil {
			u.errs = append(u.errs, fmt.Sprintf("%s callsite %s: %v", fnName(fr.fn), cl.Label, err))
			continue
		}
		u.oblige(st, "callsite", fnName(fr.fn), cl.Label, u.eng.posOf(x.Pos()), t, cl.Tags)
	}
}

// calleeName: the name callsite clauses use for a call (function RelString, or Iface.Method for invokes).
func (u *Unit) calleeName(x *ssa.Call) string {
	c := x.Call
	if c.IsInvoke() {
		n := ifaceName(c.Value.Type())
		if i := strings.LastIndex(n, "."); i >= 0 {
			n = n[i+1:]
		}
		return n + "." + c.Method.Name()
	}
	if f, ok := c.Value.(*ssa.Function); ok {
		if f.Pkg == u.eng.pkg {
			return fnName(f)
		}
		return f.String()
	}
	return ""
}

func (u *Unit) callFunction(fr *Frame, st *State, x *ssa.Call, fn *ssa.Function, bindings []*Val, args []*Val) *State {
	name := fnName(fn)
	if fr.top {
		var ats []types.Type
		for _, p := range fn.Params {
			ats = append(ats, p.Type())
		}
		u.callsiteChecks(fr, st, x, u.calleeName(x), args, ats)
	}
	if fn.Pkg != u.eng.pkg || len(fn.Blocks) == 0 {
		// function outside the repository
		full := fn.String()
		if fn.Origin() != nil {
			full = fn.Origin().String()
		}
		if m, ok := externModels[full]; ok {
			u.usedExterns[full] = true
			u.stats.externCalls++
			res, st2 := m(u, fr, st, x, args)
			u.setResults(fr, x, res)
			return st2
		}
		if c, ok := u.eng.specs.Contracts[full]; ok && c.Extern {
			u.usedExterns[full] = true
			res, st2 := u.applyContract(fr, st, x, fn, c, args, true)
			u.setResults(fr, x, res)
			return st2
		}
		// within-package function without body cannot occur; unknown extern:
		u.eng.warn("unmodelled external function (result arbitrary, no heap effect assumed): " + full)
		u.usedExterns[full+" (UNMODELLED)"] = true
		res := u.arbitraryResults(st, fn.Signature)
		u.setResults(fr, x, res)
		return st
	}
	if c := u.contractFor(fn); c != nil {
		u.usedContracts[name] = true
		u.stats.contractCalls++
		res, st2 := u.applyContract(fr, st, x, fn, c, args, false)
		u.setResults(fr, x, res)
		return st2
	}
	// inline
	depth := 0
	same := 0
	for f := fr; f != nil; f = f.caller {
		depth++
		if f.fn == fn {
			same++
		}
	}
	if depth > maxInlineDepth || same >= 2 {
		panic(fmt.Sprintf("inlining too deep / recursive at %s (give it a contract)", name))
	}
	u.stats.inlined++
	nf := &Frame{fn: fn, vals: map[ssa.Value]*Val{}, caller: fr, depth: fr.depth + 1, u: u, params: args, entry: st}
	for i, fv := range fn.FreeVars {
		nf.vals[fv] = bindings[i]
	}
	u.comment("inline " + name)
	r := u.execFunction(nf, st.Clone())
	u.comment("end inline " + name)
	if r.st == nil {
		return nil // callee never returns normally
	}
	u.setResults(fr, x, r.vals)
	return r.st.Clone()
}

func (u *Unit) arbitraryResults(st *State, sig *types.Signature) []*Val {
	var res []*Val
	for i := 0; i < sig.Results().Len(); i++ {
		t := sig.Results().At(i).Type()
		v := u.fresh("ext", u.eng.reg.SortOf(t))
		u.assume(st.pc, u.typeInv(v, t, u.comp(st, "alloc")))
		res = append(res, &Val{T: v})
	}
	return res
}

// contractEnv builds the spec environment for fn's contract.
func (u *Unit) contractEnv(fn *ssa.Function, args []*Val, results []*Val, cur, old *State) *SEnv {
	env := &SEnv{u: u, cur: cur, old: old, vars: map[string]*SVal{}, fn: fnName(fn), pc: cur.pc}
	for i, p := range fn.Params {
		if i < len(args) && args[i].T.S != "" {
			env.vars[p.Name()] = &SVal{T: args[i].T, Go: p.Type()}
		}
	}
	if results != nil {
		sig := fn.Signature
		n := sig.Results().Len()
		for i := 0; i < n; i++ {
			rv := sig.Results().At(i)
			sv := &SVal{T: results[i].T, Go: rv.Type()}
			if rv.Name() != "" && rv.Name() != "_" {
				env.vars[rv.Name()] = sv
			}
			env.vars[fmt.Sprintf("result%d", i)] = sv
			if i == 0 {
				env.vars["result"] = sv
			}
			if i == n-1 && types.Identical(rv.Type(), types.Universe.Lookup("error").Type()) {
				env.vars["err"] = sv
			}
		}
	}
	return env
}

// applyContract: assert requires, havoc modifies, assume ensures.
func (u *Unit) applyContract(fr *Frame, st *State, x *ssa.Call, fn *ssa.Function, c *Contract, args []*Val, extern bool) ([]*Val, *State) {
	name := fnName(fn)
	if extern {
		name = c.Func
	}
	pre := st
	env := u.contractEnv(fn, args, nil, pre, pre)
	ord := u.eng.instrOrdinal(x, "call")
	for _, cl := range c.Clauses {
		if cl.Kind != "requires" || !cl.visible(u.eng.prop) {
			continue
		}
		t, err := env.EvalBool(cl.Expr)
		if err != nil {
			u.errs = append(u.errs, fmt.Sprintf("%s requires %s at call in %s: %v", name, cl.Label, fnName(fr.fn), err))
			continue
		}
		tags := cl.Tags
		kind := "requires"
		if extern {
			// preconditions of external functions are their no-panic conditions
			if !u.genPanics {
				u.assume(st.pc, t)
				continue
			}
			kind = "panic"
			tags = []string{"C06"}
		}
		o := u.oblige(st, kind, fnName(fr.fn), fmt.Sprintf("call#%d:%s.%s", ord, name, cl.Label), u.eng.posOf(x.Pos()), t, tags)
		_ = o
		u.assume(st.pc, t)
	}
	// termination of direct recursion: the callee's measure, evaluated on the arguments, is strictly below the
	// caller's measure at entry, which is non-negative. A recursive call of a function without a decreases clause is
	// an obligation that cannot be discharged.
	tf := fr
	for tf.caller != nil {
		tf = tf.caller
	}
	if !extern && fn == tf.fn && u.genPanics {
		var dec *Clause
		for _, cl := range c.Clauses {
			if cl.Kind == "decreases" {
				dec = cl
			}
		}
		goal := False
		lbl := "recursion_without_decreases"
		if dec != nil {
			lbl = dec.Label
			callee, err1 := env.EvalInt(dec.Expr)
			entryEnv := u.contractEnv(fn, tf.params, nil, tf.entry, tf.entry)
			caller, err2 := entryEnv.EvalInt(dec.Expr)
			if err1 != nil || err2 != nil {
				u.errs = append(u.errs, fmt.Sprintf("%s decreases %s: %v %v", name, dec.Label, err1, err2))
			} else {
				goal = And(Ge(caller, IntLit(0)), Lt(callee, caller))
			}
		}
		u.oblige(st, "panic", fnName(fr.fn), fmt.Sprintf("call#%d:%s.%s", ord, name, lbl), u.eng.posOf(x.Pos()), goal, []string{"C06"})
	}
	post := st.Clone()
	u.comment("call " + name + " (contract)")
	// allocation may advance
	a0 := u.comp(post, "alloc")
	a1 := u.fresh("alloc", SInt)
	u.assume(post.pc, Ge(a1, a0))
	post.comps["alloc"] = a1
	// ghost call counters may advance (contracts say by how much)
	for _, g := range []string{"epoch", "vepoch"} {
		if !c.mentionsGhost(g) {
			continue // the contract promises (and its verification checks) that the counter is unchanged
		}
		g0 := u.comp(post, g)
		g1 := u.fresh(g, SInt)
		u.assume(post.pc, Ge(g1, g0))
		post.comps[g] = g1
	}
	// modifies
	for _, cl := range c.Clauses {
		if cl.Kind != "modifies" {
			continue
		}
		if cl.ModsAny || cl.frameDropped() {
			// every heap component may have changed
			all := map[string]bool{"BIG": true}
			for _, k := range u.eng.dataComps {
				all[k] = true
			}
			for k := range u.init0 {
				if strings.HasPrefix(k, "H:") || strings.HasPrefix(k, "E:") || strings.HasPrefix(k, "M") {
					all[k] = true
				}
			}
			for _, k := range compKeys2(all) {
				u.comp(post, k)
				post.comps[k] = u.fresh("hv!"+k, compSort(k))
			}
		}
		for _, m := range cl.Mods {
			if err := u.havocPlace(env, post, m); err != nil {
				u.errs = append(u.errs, fmt.Sprintf("%s modifies %s: %v", name, cl.Label, err))
			}
		}
	}
	res := u.arbitraryResults(post, fn.Signature)
	env2 := u.contractEnv(fn, args, res, post, pre)
	for _, cl := range c.Clauses {
		if cl.Kind != "ensures" || !cl.visible(u.eng.prop) {
			continue
		}
		t, err := env2.EvalBool(cl.Expr)
		if err != nil {
			u.errs = append(u.errs, fmt.Sprintf("%s ensures %s at call in %s: %v", name, cl.Label, fnName(fr.fn), err))
			continue
		}
		t = u.restrictKF(env, name, cl.Label, t)
		u.assume(post.pc, t)
	}
	return res, post
}

// havocPlace havocs the location(s) denoted by a modifies expression.
func (u *Unit) havocPlace(env *SEnv, st *State, m *SExpr) (err error) {
	defer func() {
		if r := recover(); r != nil {
			if ee, ok := r.(evalErr); ok {
				err = fmt.Errorf("%s", string(ee))
				return
			}
			panic(r)
		}
	}()
	if m.Kind == "call" && m.Name == "elems" {
		s := env.eval(m.Args[0])
		sl, ok := s.Go.Underlying().(*types.Slice)
		if !ok {
			return fmt.Errorf("elems() of non-slice")
		}
		es := u.elemSort(sl.Elem())
		c := ecomp(es)
		E := u.comp(st, c)
		if es == SInt {
			nb := u.fresh("hvbytes", SBytes)
			u.assume(st.pc, Eq(App(SInt, "blen", nb), SLen(s.T)))
			u.setComp(st, c, Store(E, SArr(s.T), App(ArraySort(SInt, SInt), "wr", Select(E, SArr(s.T)), SOff(s.T), nb)))
		} else {
			na := u.fresh("hvarr", ArraySort(SInt, es))
			q := Term{"qi!", SInt}
			old := Select(E, SArr(s.T))
			u.assume(st.pc, Forall([]Term{q}, Implies(Or(Lt(q, SOff(s.T)), Ge(q, Add(SOff(s.T), SLen(s.T)))), Eq(Select(na, q), Select(old, q))), []Term{Select(na, q)}))
			u.setComp(st, c, Store(E, SArr(s.T), na))
		}
		return nil
	}
	if m.Kind == "call" && m.Name == "mapof" {
		mv := env.eval(m.Args[0])
		mt, ok := mv.Go.Underlying().(*types.Map)
		if !ok {
			return fmt.Errorf("mapof() of non-map")
		}
		md, mvn, ks, vs := u.mapComps(mt)
		D := u.comp(st, md)
		u.setComp(st, md, Store(D, mv.T, u.fresh("hvdom", ArraySort(ks, SBool))))
		if vs != SUnit {
			V := u.comp(st, mvn)
			u.setComp(st, mvn, Store(V, mv.T, u.fresh("hvval", ArraySort(ks, vs))))
		}
		L := u.comp(st, "ML")
		nl := u.fresh("hvlen", SInt)
		u.assume(st.pc, Ge(nl, IntLit(0)))
		u.setComp(st, "ML", Store(L, mv.T, nl))
		return nil
	}
	if m.Kind == "call" && m.Name == "bigval" {
		p := env.eval(m.Args[0])
		u.setComp(st, "BIG", Store(u.comp(st, "BIG"), p.T, u.fresh("hvbig", SInt)))
		return nil
	}
	pl := env.evalPlace(m)
	if !pl.HasAddr {
		return fmt.Errorf("modifies target is not addressable")
	}
	u.havocType(st, pl.Addr, pl.Go)
	return nil
}

func (u *Unit) havocType(st *State, a Term, t types.Type) {
	if s, ok := t.Underlying().(*types.Struct); ok {
		for i := 0; i < s.NumFields(); i++ {
			u.havocType(st, FieldAddrT(a, i), s.Field(i).Type())
		}
		return
	}
	v := u.fresh("hv", u.eng.reg.SortOf(t))
	u.assume(st.pc, u.typeInv(v, t, u.comp(st, "alloc")))
	u.storeType(st, a, t, v)
}

// restrictKF weakens a clause that is a recorded known finding to its
// restricted form (restriction ==> clause) wherever it is assumed.
func (u *Unit) restrictKF(env *SEnv, fn, label string, t Term) Term {
	if u.eng.kf == nil {
		return t
	}
	for _, f := range u.eng.kf.Findings {
		if f.Status == "fixed" || f.Obligation != fn+"."+label || f.restrictExpr == nil {
			continue
		}
		r, err := env.EvalBool(f.restrictExpr)
		if err != nil {
			u.errs = append(u.errs, fmt.Sprintf("known finding %s restriction: %v", f.Obligation, err))
			continue
		}
		t = Implies(r, t)
	}
	return t
}

// ---- builtins ----

func (u *Unit) builtin(fr *Frame, st *State, x *ssa.Call, b *ssa.Builtin) *State {
	args := x.Call.Args
	switch b.Name() {
	case "len":
		v := u.operand(fr, args[0]).T
		switch t := args[0].Type().Underlying().(type) {
		case *types.Slice:
			fr.vals[x] = &Val{T: SLen(v)}
		case *types.Map:
			ml := Select(u.comp(st, "ML"), v)
			fr.vals[x] = &Val{T: u.define(x.Name(), ml)}
			u.assume(st.pc, Ge(ml, IntLit(0)))
			u.lenZeroFacts(st, v, t)
		case *types.Basic:
			fr.vals[x] = &Val{T: App(SInt, "str_len", v)}
		case *types.Pointer:
			fr.vals[x] = &Val{T: IntLit(t.Elem().Underlying().(*types.Array).Len())}
		default:
			panic("len of " + args[0].Type().String())
		}
		return st
	case "cap":
		v := u.operand(fr, args[0]).T
		fr.vals[x] = &Val{T: SCap(v)}
		return st
	case "append":
		return u.appendOp(fr, st, x)
	case "copy":
		return u.copyOp(fr, st, x)
	case "delete":
		m := u.operand(fr, args[0]).T
		k := u.operand(fr, args[1]).T
		mt := args[0].Type().Underlying().(*types.Map)
		md, _, _, _ := u.mapComps(mt)
		u.panicObl(st, fr, x, "maphash", u.hashable(k, mt.Key()))
		D := u.comp(st, md)
		was := u.define("was", Select(Select(D, m), k))
		// delete on nil map is a no-op
		u.setComp(st, md, Ite(Eq(m, IntLit(0)), D, Store(D, m, Store(Select(D, m), k, False))))
		L := u.comp(st, "ML")
		u.setComp(st, "ML", Ite(Eq(m, IntLit(0)), L, Store(L, m, Sub(Select(L, m), Ite(was, IntLit(1), IntLit(0))))))
		fr.vals[x] = &Val{T: Term{"unit", SUnit}}
		return st
	case "recover":
		if fr.recovering {
			r := u.fresh("recovered", SAny)
			u.assume(st.pc, And(Neq(r, AnyNil), App(SBool, "any_ok", r, u.comp(st, "alloc"))))
			fr.vals[x] = &Val{T: r}
			return st
		}
		fr.vals[x] = &Val{T: AnyNil}
		return st
	case "print", "println":
		fr.vals[x] = &Val{T: Term{"unit", SUnit}}
		return st
	}
	panic("unsupported builtin " + b.Name())
}

// lenZeroFacts: len(m)==0 <=> empty domain.
func (u *Unit) lenZeroFacts(st *State, m Term, mt *types.Map) {
	md, _, ks, _ := u.mapComps(mt)
	dom := Select(u.comp(st, md), m)
	ml := Select(u.comp(st, "ML"), m)
	empty := Term{fmt.Sprintf("((as const (Array %s Bool)) false)", ks), ArraySort(ks, SBool)}
	u.assume(st.pc, Implies(Eq(ml, IntLit(0)), Eq(dom, empty)))
	q := Term{"qk!", ks}
	u.assume(st.pc, Forall([]Term{q}, Implies(Select(dom, q), Ge(ml, IntLit(1))), []Term{Select(dom, q)}))
}

func (u *Unit) appendOp(fr *Frame, st *State, x *ssa.Call) *State {
	args := x.Call.Args
	s := u.operand(fr, args[0]).T
	sl := x.Type().Underlying().(*types.Slice)
	es := u.elemSort(sl.Elem())
	c := ecomp(es)
	// append(s, str...) for []byte
	if isString(args[1].Type()) {
		panic("append of string unsupported")
	}
	t := u.operand(fr, args[1]).T
	n := SLen(t)
	newLen := u.define("alen", Add(SLen(s), n))
	inPlace := u.define("inplace", Le(newLen, SCap(s)))
	E := u.comp(st, c)
	// single-element append when the source is a one-element array literal
	single := false
	if ssl, ok := args[1].(*ssa.Slice); ok {
		if pt, ok := ssl.X.Type().Underlying().(*types.Pointer); ok {
			if at, ok := pt.Elem().Underlying().(*types.Array); ok && at.Len() == 1 {
				single = true
			}
		}
	}
	newID := u.newObj(st)
	newCap := u.fresh("acap", SInt)
	u.assume(st.pc, Ge(newCap, newLen))
	if single {
		elem := Select(Select(E, SArr(t)), SOff(t))
		// in place: write at off+len in the same store; else: new store = copy of old contents (same offset) with the element written
		arrIn := Store(Select(E, SArr(s)), Add(SOff(s), SLen(s)), elem)
		E2 := Ite(inPlace, Store(E, SArr(s), arrIn), Store(E, newID, arrIn))
		u.setComp(st, c, E2)
		res := Ite(inPlace, MkSlice(SArr(s), SOff(s), newLen, SCap(s)), MkSlice(newID, SOff(s), newLen, Add(SOff(s), newCap)))
		// appending to a nil slice: s has arr 0, always reallocates unless n==0
		fr.vals[x] = &Val{T: u.define(x.Name(), res)}
		return st
	}
	if es != SInt {
		// general multi-element append for non-byte element sorts: new contents described by quantified facts
		na := u.fresh("apparr", ArraySort(SInt, es))
		q := Term{"qi!", SInt}
		old := Select(E, SArr(s))
		src := Select(E, SArr(t))
		u.assume(st.pc, Forall([]Term{q}, Implies(And(Le(SOff(s), q), Lt(q, Add(SOff(s), SLen(s)))), Eq(Select(na, q), Select(old, q))), []Term{Select(na, q)}))
		u.assume(st.pc, Forall([]Term{q}, Implies(And(Le(IntLit(0), q), Lt(q, n)), Eq(Select(na, Add(Add(SOff(s), SLen(s)), q)), Select(src, Add(SOff(t), q)))), []Term{Select(src, Add(SOff(t), q))}))
		u.assume(st.pc, Implies(inPlace, Forall([]Term{q}, Implies(Or(Lt(q, Add(SOff(s), SLen(s))), Ge(q, Add(SOff(s), newLen))), Eq(Select(na, q), Select(old, q))), []Term{Select(na, q)})))
		E2 := Ite(Eq(n, IntLit(0)), E, Ite(inPlace, Store(E, SArr(s), na), Store(E, newID, na)))
		u.setComp(st, c, E2)
		res := Ite(Eq(n, IntLit(0)), s, Ite(inPlace, MkSlice(SArr(s), SOff(s), newLen, SCap(s)), MkSlice(newID, SOff(s), newLen, Add(SOff(s), newCap))))
		fr.vals[x] = &Val{T: u.define(x.Name(), res)}
		return st
	}
	// bytes: use wr
	srcBytes := App(SBytes, "view", Select(E, SArr(t)), SOff(t), n)
	arrIn := App(ArraySort(SInt, SInt), "wr", Select(E, SArr(s)), Add(SOff(s), SLen(s)), srcBytes)
	E2 := Ite(Eq(n, IntLit(0)), E, Ite(inPlace, Store(E, SArr(s), arrIn), Store(E, newID, arrIn)))
	u.setComp(st, c, E2)
	res := Ite(Eq(n, IntLit(0)), s, Ite(inPlace, MkSlice(SArr(s), SOff(s), newLen, SCap(s)), MkSlice(newID, SOff(s), newLen, Add(SOff(s), newCap))))
	fr.vals[x] = &Val{T: u.define(x.Name(), res)}
	return st
}

func (u *Unit) copyOp(fr *Frame, st *State, x *ssa.Call) *State {
	args := x.Call.Args
	dst := u.operand(fr, args[0]).T
	if isString(args[1].Type()) {
		panic("copy from string unsupported")
	}
	src := u.operand(fr, args[1]).T
	sl := args[0].Type().Underlying().(*types.Slice)
	es := u.elemSort(sl.Elem())
	if es != SInt {
		panic("copy of non-byte slices unsupported")
	}
	c := ecomp(es)
	E := u.comp(st, c)
	n := u.define("ncopy", Ite(Lt(SLen(dst), SLen(src)), SLen(dst), SLen(src)))
	srcBytes := App(SBytes, "view", Select(E, SArr(src)), SOff(src), n)
	arrIn := App(ArraySort(SInt, SInt), "wr", Select(E, SArr(dst)), SOff(dst), srcBytes)
	u.setComp(st, c, Ite(Eq(n, IntLit(0)), E, Store(E, SArr(dst), arrIn)))
	fr.vals[x] = &Val{T: n}
	return st
}

// callMods: heap components a call may modify (for loop havoc).
func (u *Unit) callMods(x *ssa.Call, set map[string]bool, depth int) {
	c := x.Call
	all := func() {
		set["*"] = true
	}
	if c.IsInvoke() {
		u.invokeMods(x, set)
		return
	}
	switch f := c.Value.(type) {
	case *ssa.Builtin:
		switch f.Name() {
		case "append":
			sl := x.Type().Underlying().(*types.Slice)
			set[ecomp(u.elemSort(sl.Elem()))] = true
			set["alloc"] = true
		case "copy":
			set[ecomp(SInt)] = true
		case "delete":
			mt := c.Args[0].Type().Underlying().(*types.Map)
			md, _, _, _ := u.mapComps(mt)
			set[md] = true
			set["ML"] = true
		}
	case *ssa.Function:
		u.funcMods(f, set, depth)
	case *ssa.MakeClosure:
		u.funcMods(f.Fn.(*ssa.Function), set, depth)
	default:
		all()
	}
}

func (u *Unit) funcMods(f *ssa.Function, set map[string]bool, depth int) {
	if f.Pkg != u.eng.pkg || len(f.Blocks) == 0 {
		full := f.String()
		if f.Origin() != nil {
			full = f.Origin().String()
		}
		if ms, ok := externMods[full]; ok {
			for _, m := range ms {
				set[m] = true
			}
			return
		}
		if c, ok := u.eng.specs.Contracts[full]; ok && c.Extern {
			u.contractMods(c, f, set)
			return
		}
		set["alloc"] = true
		return
	}
	if c := u.contractFor(f); c != nil {
		u.contractMods(c, f, set)
		return
	}
	if depth > maxInlineDepth {
		set["*"] = true
		return
	}
	for _, b := range f.Blocks {
		for _, ins := range b.Instrs {
			u.instrMods(ins, set, depth+1)
		}
	}
}

func (u *Unit) contractMods(c *Contract, f *ssa.Function, set map[string]bool) {
	set["alloc"] = true
	for _, g := range []string{"epoch", "vepoch"} {
		if c.mentionsGhost(g) {
			set[g] = true
		}
	}
	for _, cl := range c.Clauses {
		if cl.Kind != "modifies" {
			continue
		}
		if cl.ModsAny || cl.frameDropped() {
			set["*"] = true
		}
		for _, m := range cl.Mods {
			switch {
			case m.Kind == "call" && m.Name == "elems":
				// element sort unknown syntactically: be conservative over element stores
				set[ecomp(SInt)] = true
				set[ecomp(SAny)] = true
				set[ecomp(SSlice)] = true
				set[ecomp(SAddr)] = true
			case m.Kind == "call" && m.Name == "mapof":
				anyS := string(SAny)
				set["MD:"+anyS+":"+anyS] = true
				set["MV:"+anyS+":"+anyS] = true
				set["ML"] = true
			case m.Kind == "call" && m.Name == "bigval":
				set["BIG"] = true
			default:
				// a field place: all pointer-addressed cells of any sort may change; refine by leaf sort when resolvable
				for _, s := range []Sort{SInt, SBool, SStr, SAddr, SSlice, SAny} {
					set[hcomp(s)] = true
				}
			}
		}
	}
}

var _ = strings.Contains

func compKeys2(m map[string]bool) []string {
	ks := make([]string, 0, len(m))
	for k := range m {
		ks = append(ks, k)
	}
	sort.Strings(ks)
	return ks
}
