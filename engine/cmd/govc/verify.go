package main

import (
	"fmt"
	"go/types"
	"strings"

	"golang.org/x/tools/go/ssa"
)

// VerifyFunction executes fn under its contract and collects obligations.
func (e *Engine) VerifyFunction(fn *ssa.Function, genPanics bool) (u *Unit, err error) {
	name := fnName(fn)
	u = &Unit{eng: e, name: name, init0: map[string]Term{}, usedExterns: map[string]bool{}, usedContracts: map[string]bool{}, genPanics: genPanics}
	u.isInit = (fn.Name() == "init" || strings.HasPrefix(fn.Name(), "init#")) && fn.Signature.Recv() == nil
	defer func() {
		if r := recover(); r != nil {
			if s, ok := r.(string); ok {
				err = fmt.Errorf("%s: %s", name, s)
				return
			}
			if ee, ok := r.(evalErr); ok {
				err = fmt.Errorf("%s: %s", name, string(ee))
				return
			}
			if er, ok := r.(error); ok && strings.Contains(er.Error(), "runtime error") {
				panic(r)
			}
			panic(r)
		}
	}()
	st := &State{pc: True, comps: map[string]Term{}}
	alloc0 := u.comp(st, "alloc")
	u.comp(st, "epoch")
	u.comp(st, "vepoch")
	fr := &Frame{fn: fn, vals: map[ssa.Value]*Val{}, u: u, top: true}
	c := e.specs.Contracts[name]
	fr.contract = c
	// parameters: arbitrary values satisfying their type invariants
	for _, p := range fn.Params {
		v := u.fresh("p!"+p.Name(), e.reg.SortOf(p.Type()))
		u.assume(True, u.typeInv(v, p.Type(), alloc0))
		fr.params = append(fr.params, &Val{T: v})
	}
	for _, fv := range fn.FreeVars {
		v := u.fresh("fv!"+fv.Name(), e.reg.SortOf(fv.Type()))
		u.assume(True, u.typeInv(v, fv.Type(), alloc0))
		fr.vals[fv] = &Val{T: v}
	}
	u.assume(True, Gt(alloc0, IntLit(int64(len(e.globList)+1))))
	entry := st.Clone()
	fr.entry = entry
	// requires
	if c != nil {
		env := u.contractEnv(fn, fr.params, nil, st, st)
		for _, cl := range c.Clauses {
			if cl.Kind != "requires" || !cl.visible(e.prop) {
				continue
			}
			t, err := env.EvalBool(cl.Expr)
			if err != nil {
				u.errs = append(u.errs, fmt.Sprintf("%s requires %s: %v", name, cl.Label, err))
				continue
			}
			u.assume(True, t)
		}
	}
	res := u.execFunction(fr, st)
	if res.st == nil {
		// never returns normally (e.g. always panics)
		return u, nil
	}
	if c != nil {
		// one obligation per clause and return site (no merged states in the goals)
		multi := len(res.rets) > 1
		for _, site := range res.rets {
			exit := site.st
			suffix := ""
			if multi {
				suffix = fmt.Sprintf("@ret%d", site.ord)
			}
			// vacuity guard: the assumptions accumulated on the way to this return site must not be contradictory
			// (an obligation that is expected NOT to be discharged; see reportProperty)
			vo := u.oblige(exit, "vacuity", name, "reachable", "", False, nil)
			vo.Name += suffix
			vo.Vacuity = true
			env := u.contractEnv(fn, fr.params, site.vals, exit, entry)
			for _, cl := range c.Clauses {
				if cl.Kind != "ensures" || !cl.visible(e.prop) {
					continue
				}
				t, err := env.EvalBool(cl.Expr)
				if err != nil {
					u.errs = append(u.errs, fmt.Sprintf("%s ensures %s: %v", name, cl.Label, err))
					continue
				}
				o := u.oblige(exit, "ensures", name, cl.Label, fmt.Sprintf("contracts:%d", cl.Line), t, cl.Tags)
				u.applyKF(env, o, suffix)
				o.Name += suffix
			}
			if !c.Inline {
				n0 := len(u.obls)
				u.frameObligations(fn, c, fr, entry, exit)
				for _, g := range []string{"epoch", "vepoch"} {
					if !c.mentionsGhost(g) {
						u.oblige(exit, "modifies", name, "ghost_"+g+"_unchanged", fmt.Sprintf("contracts:%d", c.Line), Eq(u.comp(exit, g), u.comp(entry, g)), nil)
					}
				}
				for _, o := range u.obls[n0:] {
					o.Name += suffix
				}
			}
		}
	}
	if c != nil {
		for _, cl := range c.Clauses {
			if cl.Kind == "callsite" && cl.visible(e.prop) && !cl.used {
				u.errs = append(u.errs, fmt.Sprintf("%s callsite %s: no call %s#%d in the function (stale contract)", name, cl.Label, cl.Callee, cl.Loop))
			}
		}
	}
	return u, nil
}

// applyKF: if the obligation is a recorded known finding, check it in its
// restricted form and remember that the unrestricted form is expected to fail.
func (u *Unit) applyKF(env *SEnv, o *Obligation, suffix string) {
	if u.eng.kf == nil {
		return
	}
	for _, f := range u.eng.kf.Findings {
		if f.Status == "fixed" || f.Obligation != o.Name || f.restrictExpr == nil {
			continue
		}
		n := *env
		n.cur = env.old
		r, err := n.EvalBool(f.restrictExpr)
		if err != nil {
			u.errs = append(u.errs, fmt.Sprintf("known finding %s restriction: %v", f.Obligation, err))
			continue
		}
		// unrestricted twin (expected to fail)
		twin := *o
		twin.Name = o.Name + suffix + "!unrestricted"
		twin.KFWhat = f.What
		u.obls = append(u.obls, &twin)
		o.Goal = Implies(r, o.Goal)
		o.Restricted = true
	}
}

// frameGoals: the conjuncts saying that everything allocated before the call
// and not named in a modifies clause has, in state `now`, the value it had at
// entry. Returns nil when the contract promises nothing (modifies anything).
// One goal per heap component that differs syntactically between the states.
func (u *Unit) frameGoals(fn *ssa.Function, c *Contract, fr *Frame, entry, now *State) (goals []Term, label string, tags []string, none bool) {
	name := fnName(fn)
	alloc0 := u.comp(entry, "alloc")
	env := u.contractEnv(fn, fr.params, nil, entry, entry)
	env.noAssume = true
	type place struct {
		addr  Term
		t     types.Type
		elems *SVal // slice whose elements may change
		mp    *SVal
		big   *SVal
	}
	var places []place
	label = "frame"
	for _, cl := range c.Clauses {
		if cl.Kind != "modifies" {
			continue
		}
		if cl.ModsAny {
			return nil, label, nil, true
		}
		if cl.Label != "" && !strings.HasPrefix(cl.Label, "modifies") {
			label = cl.Label
		}
		tags = cl.Tags
		for _, m := range cl.Mods {
			func() {
				defer func() {
					if r := recover(); r != nil {
						if ee, ok := r.(evalErr); ok {
							u.errs = append(u.errs, fmt.Sprintf("%s modifies: %s", name, string(ee)))
							return
						}
						panic(r)
					}
				}()
				if m.Kind == "call" && m.Name == "elems" {
					s := env.eval(m.Args[0])
					places = append(places, place{elems: s})
					return
				}
				if m.Kind == "call" && m.Name == "mapof" {
					s := env.eval(m.Args[0])
					places = append(places, place{mp: s})
					return
				}
				if m.Kind == "call" && m.Name == "bigval" {
					s := env.eval(m.Args[0])
					places = append(places, place{big: s})
					return
				}
				pl := env.evalPlace(m)
				if !pl.HasAddr {
					u.errs = append(u.errs, fmt.Sprintf("%s modifies: target not addressable", name))
					return
				}
				places = append(places, place{addr: pl.Addr, t: pl.Go})
			}()
		}
	}
	// leaf addresses allowed per H component
	allowedAddr := map[string][]Term{}
	var collect func(a Term, t types.Type)
	collect = func(a Term, t types.Type) {
		if s, ok := t.Underlying().(*types.Struct); ok {
			for i := 0; i < s.NumFields(); i++ {
				collect(FieldAddrT(a, i), s.Field(i).Type())
			}
			return
		}
		k := hcomp(u.eng.reg.SortOf(t))
		allowedAddr[k] = append(allowedAddr[k], a)
	}
	for _, p := range places {
		if p.addr.S != "" {
			collect(p.addr, p.t)
		}
	}
	keys := compKeys(now.comps)
	for _, k := range keys {
		before, after := u.comp(entry, k), now.comps[k]
		if before.S == after.S {
			continue
		}
		switch {
		case strings.HasPrefix(k, "H:") || k == "BIG":
			a := Term{"fa!", SAddr}
			var excl []Term
			for _, al := range allowedAddr[k] {
				excl = append(excl, Neq(a, al))
			}
			if k == "BIG" {
				for _, p := range places {
					if p.big != nil {
						excl = append(excl, Neq(a, p.big.T))
					}
				}
			}
			cond := And(append([]Term{Lt(App(SInt, "aobj", a), alloc0)}, excl...)...)
			goals = append(goals, Forall([]Term{a}, Implies(cond, Eq(Select(after, a), Select(before, a))), []Term{Select(after, a)}))
		case strings.HasPrefix(k, "E:"):
			id := Term{"fid!", SInt}
			var excl []Term
			var elemPlaces []Term
			for _, p := range places {
				if p.elems != nil {
					elemPlaces = append(elemPlaces, p.elems.T)
				}
			}
			if len(elemPlaces) == 0 {
				goals = append(goals, Forall([]Term{id}, Implies(Lt(id, alloc0), Eq(Select(after, id), Select(before, id))), []Term{Select(after, id)}))
				break
			}
			i := Term{"fi!", SInt}
			for _, s := range elemPlaces {
				excl = append(excl, Not(And(Eq(id, SArr(s)), Le(SOff(s), i), Lt(i, Add(SOff(s), SLen(s))))))
			}
			cond := And(append([]Term{Lt(id, alloc0)}, excl...)...)
			goals = append(goals, Forall([]Term{id, i}, Implies(cond, Eq(Select(Select(after, id), i), Select(Select(before, id), i))), []Term{Select(Select(after, id), i)}))
		case strings.HasPrefix(k, "MD:") || strings.HasPrefix(k, "MV:") || k == "ML":
			id := Term{"fid!", SInt}
			var excl []Term
			for _, p := range places {
				if p.mp != nil {
					excl = append(excl, Neq(id, p.mp.T))
				}
			}
			cond := And(append([]Term{Lt(id, alloc0)}, excl...)...)
			goals = append(goals, Forall([]Term{id}, Implies(cond, Eq(Select(after, id), Select(before, id))), []Term{Select(after, id)}))
		}
	}
	return goals, label, tags, false
}

// frameObligations: the frame holds at a return site.
func (u *Unit) frameObligations(fn *ssa.Function, c *Contract, fr *Frame, entry, exit *State) {
	name := fnName(fn)
	goals, label, tags, none := u.frameGoals(fn, c, fr, entry, exit)
	if none {
		return
	}
	if len(goals) == 0 {
		// nothing changed syntactically: still record a (trivial) obligation so the frame is counted
		u.oblige(exit, "modifies", name, label, fmt.Sprintf("contracts:%d", c.Line), True, tags)
		return
	}
	for gi, g := range goals {
		l := label
		if len(goals) > 1 {
			l = fmt.Sprintf("%s.%d", label, gi)
		}
		u.oblige(exit, "modifies", name, l, fmt.Sprintf("contracts:%d", c.Line), g, tags)
	}
}

// Query assembles the SMT-LIB text for one obligation.
func (e *Engine) Query(o *Obligation, prelude string) string {
	return e.query(o, prelude, false)
}

// QueryLite: the same obligation with every quantified assumption of the unit left out (loop invariants,
// heap well-formedness, quantified callee postconditions). Fewer assumptions: an `unsat` answer is still a proof.
// Error-return paths and most panic obligations are decided from the path conditions alone, and this keeps them
// independent of the (sometimes unstable) instantiation behaviour on the quantified context.
func (e *Engine) QueryLite(o *Obligation, prelude string) string {
	return e.query(o, prelude, true)
}

func (e *Engine) query(o *Obligation, prelude string, lite bool) string {
	var body strings.Builder
	u := o.Unit
	body.WriteString("; ---- unit " + u.name + " ----\n")
	for _, c := range u.cmds[:o.Prefix] {
		if lite && strings.HasPrefix(c, "(assert ") && (strings.Contains(c, "(forall ") || strings.Contains(c, "(exists ")) {
			continue
		}
		body.WriteString(c)
		body.WriteString("\n")
	}
	body.WriteString(e.globalAxiomsFor(u, o.Prefix))
	fmt.Fprintf(&body, "; ---- obligation %s ----\n", o.Name)
	fmt.Fprintf(&body, "(assert (not (=> %s %s)))\n", o.PC.S, o.Goal.S)
	body.WriteString("(check-sat)\n")
	e.pixMu.Lock()
	if e.pix == nil || e.pixFor != prelude {
		e.pix = buildPreludeIndex(prelude)
		e.pixFor = prelude
	}
	ix := e.pix
	e.pixMu.Unlock()
	var sb strings.Builder
	sb.WriteString("(set-logic ALL)\n")
	if e.noFilter {
		sb.WriteString(prelude)
	} else {
		sb.WriteString(ix.filter(body.String()))
	}
	sb.WriteString(body.String())
	return sb.String()
}

func (e *Engine) globalAxiomsFor(u *Unit, prefix int) string {
	// facts about the byte tables need the initial byte heap; only usable once it is declared in the prefix
	declared := false
	if h0, ok := u.init0[ecomp(SInt)]; ok {
		needle := "(declare-const " + h0.S + " "
		for _, c := range u.cmds[:prefix] {
			if strings.HasPrefix(c, needle) {
				declared = true
				break
			}
		}
	}
	return e.globalAxioms(u, declared)
}

// FullPrelude = type prelude + spec decls + strings + extra decls + axioms.
func (e *Engine) FullPrelude() string {
	var sb strings.Builder
	sb.WriteString(e.Prelude())
	sb.WriteString(e.cvAxioms())
	sb.WriteString(e.cryptoAxioms())
	sb.WriteString(e.specDecls())
	sb.WriteString(e.extraDecls())
	sb.WriteString(e.stringDecls())
	for _, d := range e.pureDefs {
		sb.WriteString(d)
		sb.WriteString("\n")
	}
	sb.WriteString(e.axiomText())
	return sb.String()
}

// axiomText: user axioms from the contract files (closed formulas).
func (e *Engine) axiomText() string {
	var sb strings.Builder
	for _, a := range e.specs.Axioms {
		u := &Unit{eng: e, name: "axiom", init0: map[string]Term{}, usedExterns: map[string]bool{}, usedContracts: map[string]bool{}}
		st := &State{pc: True, comps: map[string]Term{}}
		env := &SEnv{u: u, cur: st, old: st, vars: map[string]*SVal{}, fn: "axiom " + a.Label, pc: True}
		t, err := env.EvalBool(a.Expr)
		if err != nil {
			e.loadErrs = append(e.loadErrs, fmt.Sprintf("axiom %s: %v", a.Label, err))
			continue
		}
		if len(u.cmds) > 0 {
			e.loadErrs = append(e.loadErrs, fmt.Sprintf("axiom %s: must not depend on program state", a.Label))
			continue
		}
		fmt.Fprintf(&sb, "(assert %s) ; axiom %s\n", t.S, a.Label)
	}
	return sb.String()
}
