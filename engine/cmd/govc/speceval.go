package main

import (
	"fmt"
	"go/ast"
	"go/constant"
	"go/types"
	"strconv"
	"strings"

	"golang.org/x/tools/go/ssa"
)

// SVal is the value of a spec expression.
type SVal struct {
	T       Term
	Go      types.Type // nil for pure spec sorts
	Addr    Term
	HasAddr bool
	IsNil   bool // untyped nil literal
}

type SEnv struct {
	u     *Unit
	cur   *State
	old   *State
	vars  map[string]*SVal
	fr    *Frame
	head  *ssa.BasicBlock // loop header for local-name resolution (invariants)
	depth int
	fn    string // for error messages
	pc    Term   // guard for auxiliary assumptions emitted during evaluation
	noAssume bool // evaluation must not emit assumptions (axioms, lemmas)
	bound []Term // quantified variables in scope
	loopEntry *State // state on first arrival at the loop header (for entry(e) in invariants)
}

type evalErr string

func (env *SEnv) fail(f string, a ...any) {
	panic(evalErr(fmt.Sprintf(f, a...)))
}

func (env *SEnv) child() *SEnv {
	n := *env
	n.vars = map[string]*SVal{}
	for k, v := range env.vars {
		n.vars[k] = v
	}
	return &n
}

// EvalBool evaluates a boolean spec expression, returning an error instead of panicking.
func (env *SEnv) EvalBool(e *SExpr) (t Term, err error) {
	defer func() {
		if r := recover(); r != nil {
			if ee, ok := r.(evalErr); ok {
				err = fmt.Errorf("%s", string(ee))
				return
			}
			panic(r)
		}
	}()
	v := env.eval(e)
	if v.T.Sort != SBool {
		return Term{}, fmt.Errorf("expression is not boolean (sort %s)", v.T.Sort)
	}
	return v.T, nil
}

// EvalInt evaluates an integer-valued (or boolean, read as 0/1) specification expression.
func (env *SEnv) EvalInt(e *SExpr) (t Term, err error) {
	defer func() {
		if r := recover(); r != nil {
			if ee, ok := r.(evalErr); ok {
				err = fmt.Errorf("%s", string(ee))
				return
			}
			panic(r)
		}
	}()
	v := env.eval(e)
	switch v.T.Sort {
	case SInt:
		return v.T, nil
	case SBool:
		return Ite(v.T, IntLit(1), IntLit(0)), nil
	}
	return Term{}, fmt.Errorf("measure is not an integer (sort %s)", v.T.Sort)
}

func (env *SEnv) value(v *SVal) *SVal {
	// force load of a place
	if v.T.S == "" && v.HasAddr {
		nv := *v
		nv.T = env.u.loadType(env.cur, v.Addr, v.Go)
		env.assumeWF(nv.T, v.Go)
		return &nv
	}
	return v
}

// assumeWF: heap well-formedness -- every value stored in the heap satisfies its type invariant.
func (env *SEnv) assumeWF(t Term, goT types.Type) {
	if env.noAssume || goT == nil {
		return
	}
	if _, isStruct := goT.Underlying().(*types.Struct); isStruct {
		return
	}
	// one fact per (heap term, allocation counter): the bound is only as strong as the counter it is stated for
	if env.u.wfSeen == nil {
		env.u.wfSeen = map[string]bool{}
	}
	key := t.S + "@" + env.u.comp(env.cur, "alloc").S
	if env.u.wfSeen[key] {
		return
	}
	env.u.wfSeen[key] = true
	inv := env.u.typeInv(t, goT, env.u.comp(env.cur, "alloc"))
	if inv.S == "true" {
		return
	}
	var used []Term
	for _, b := range env.bound {
		if strings.Contains(t.S, b.S) {
			used = append(used, b)
		}
	}
	if len(used) > 0 {
		// inside a quantifier: well-formedness holds for every instance of the bound variables.
		// For interface-typed loads the invariant (any_ok) is a large case split that is rarely needed and makes
		// instantiation expensive; it is only stated for concrete reference types (pointers, slices, maps, integers).
		if _, isIface := goT.Underlying().(*types.Interface); isIface {
			return
		}
		env.u.assume(True, Forall(used, inv, []Term{t}))
	} else {
		env.u.assume(True, inv)
	}
}

func (env *SEnv) eval(e *SExpr) *SVal {
	return env.value(env.evalPlace(e))
}

func (env *SEnv) goSort(t types.Type) Sort { return env.u.eng.reg.SortOf(t) }

func (env *SEnv) evalPlace(e *SExpr) *SVal {
	u := env.u
	switch e.Kind {
	case "int":
		n, err := strconv.ParseInt(e.Name, 0, 64)
		if err != nil {
			// big literal
			return &SVal{T: BigLit(e.Name)}
		}
		return &SVal{T: IntLit(n)}
	case "str":
		s, err := strconv.Unquote(`"` + e.Name + `"`)
		if err != nil {
			s = e.Name
		}
		return &SVal{T: u.eng.strLit(s), Go: types.Typ[types.String]}
	case "bool":
		return &SVal{T: BoolLit(e.Name == "true"), Go: types.Typ[types.Bool]}
	case "nil":
		return &SVal{IsNil: true, T: AnyNil}
	case "ident":
		return env.ident(e.Name)
	case "unary":
		switch e.Op {
		case "!":
			return &SVal{T: Not(env.evalB(e.Args[0])), Go: types.Typ[types.Bool]}
		case "-":
			return &SVal{T: App(SInt, "-", env.evalI(e.Args[0]))}
		case "&":
			pl := env.evalPlace(e.Args[0])
			if !pl.HasAddr || pl.Go == nil {
				env.fail("& of a non-addressable expression")
			}
			return &SVal{T: pl.Addr, Go: types.NewPointer(pl.Go)}
		case "*":
			p := env.eval(e.Args[0])
			pt, ok := p.Go.Underlying().(*types.Pointer)
			if !ok {
				env.fail("deref of non-pointer")
			}
			return &SVal{Go: pt.Elem(), Addr: p.T, HasAddr: true}
		}
	case "binary":
		return env.binary(e)
	case "ite":
		c := env.evalB(e.Args[0])
		a, b := env.eval(e.Args[1]), env.eval(e.Args[2])
		a, b = env.unify(a, b)
		return &SVal{T: Ite(c, a.T, b.T), Go: a.Go}
	case "field":
		return env.field(e)
	case "index":
		return env.index(e)
	case "slice":
		return env.sliceExpr(e)
	case "call":
		return env.call(e)
	case "is":
		v := env.eval(e.Args[0])
		if v.T.Sort != SAny {
			env.fail("'is' on non-interface value")
		}
		ty := env.resolveType(e.Type)
		if ty.Go == nil {
			env.fail("'is' needs a Go type")
		}
		if _, isIface := ty.Go.Underlying().(*types.Interface); isIface {
			return &SVal{T: u.implementsTerm(v.T, ty.Go), Go: types.Typ[types.Bool]}
		}
		if u.eng.reg.AnyConOf(ty.Go) == nil {
			env.fail("type %s has no Any constructor (not used as a dynamic type in the package)", ty.Go)
		}
		return &SVal{T: u.isType(v.T, ty.Go), Go: types.Typ[types.Bool]}
	case "assert":
		v := env.eval(e.Args[0])
		ty := env.resolveType(e.Type)
		if v.T.Sort != SAny || ty.Go == nil {
			env.fail("bad type assertion in spec")
		}
		if _, isIface := ty.Go.Underlying().(*types.Interface); isIface {
			return &SVal{T: v.T, Go: ty.Go}
		}
		if u.eng.reg.AnyConOf(ty.Go) == nil {
			env.fail("type %s has no Any constructor", ty.Go)
		}
		return &SVal{T: u.payload(v.T, ty.Go), Go: ty.Go}
	case "quant":
		n := env.child()
		var vars []Term
		for _, b := range e.Binders {
			ty := env.resolveType(b.Type)
			q := Term{sym("q!" + b.Name), ty.Sort}
			vars = append(vars, q)
			n.vars[b.Name] = &SVal{T: q, Go: ty.Go}
		}
		n.bound = append(append([]Term(nil), env.bound...), vars...)
		body := n.evalB(e.Args[0])
		if e.Op == "forall" {
			return &SVal{T: Forall(vars, body, autoPatterns(body.S, vars)...), Go: types.Typ[types.Bool]}
		}
		return &SVal{T: Exists(vars, body, autoPatterns(body.S, vars)...), Go: types.Typ[types.Bool]}
	}
	env.fail("cannot evaluate spec expression of kind %s", e.Kind)
	return nil
}

func (env *SEnv) evalB(e *SExpr) Term {
	v := env.eval(e)
	if v.T.Sort != SBool {
		env.fail("boolean expected, got sort %s (%s)", v.T.Sort, v.T.S)
	}
	return v.T
}

func (env *SEnv) evalI(e *SExpr) Term {
	v := env.eval(e)
	if v.T.Sort != SInt {
		env.fail("integer expected, got sort %s", v.T.Sort)
	}
	return v.T
}

type RType struct {
	Go   types.Type
	Sort Sort
}

func (env *SEnv) resolveType(t *STypeExpr) RType { return env.u.eng.resolveType(t) }

func (e *Engine) resolveType(t *STypeExpr) RType {
	switch t.Kind {
	case "name":
		switch t.Name {
		case "Int":
			return RType{nil, SInt}
		case "Bool":
			return RType{nil, SBool}
		case "Bytes":
			return RType{nil, SBytes}
		case "CV":
			return RType{nil, SCV}
		case "CVList":
			return RType{nil, SCVL}
		case "Data":
			return RType{nil, "Data"}
		case "AnySet":
			return RType{nil, ArraySort(SAny, SBool)}
		case "AnyMap":
			return RType{nil, ArraySort(SAny, SAny)}
		case "AnyElems":
			return RType{nil, ArraySort(SInt, ArraySort(SInt, SAny))}
		case "AddrElems":
			return RType{nil, ArraySort(SInt, ArraySort(SInt, SAddr))}
		case "any":
			ty := types.Universe.Lookup("any").Type()
			return RType{ty, SAny}
		}
		if o := types.Universe.Lookup(t.Name); o != nil {
			if tn, ok := o.(*types.TypeName); ok {
				return RType{tn.Type(), e.reg.SortOf(tn.Type())}
			}
		}
		if o := e.pkg.Pkg.Scope().Lookup(t.Name); o != nil {
			if tn, ok := o.(*types.TypeName); ok {
				return RType{tn.Type(), e.reg.SortOf(tn.Type())}
			}
		}
		panic(evalErr("unknown type " + t.Name))
	case "qual":
		for _, imp := range e.allPackages() {
			if imp.Name() == t.Pkg {
				if o := imp.Scope().Lookup(t.Name); o != nil {
					if tn, ok := o.(*types.TypeName); ok {
						return RType{tn.Type(), e.reg.SortOf(tn.Type())}
					}
				}
			}
		}
		panic(evalErr("unknown type " + t.Pkg + "." + t.Name))
	case "ptr":
		el := e.resolveType(t.Elem)
		if el.Go == nil {
			panic(evalErr("pointer to spec sort"))
		}
		return RType{types.NewPointer(el.Go), SAddr}
	case "slice":
		el := e.resolveType(t.Elem)
		if el.Go == nil {
			panic(evalErr("slice of spec sort"))
		}
		return RType{types.NewSlice(el.Go), SSlice}
	case "map":
		k, v := e.resolveType(t.Key), e.resolveType(t.Elem)
		return RType{types.NewMap(k.Go, v.Go), SInt}
	}
	panic(evalErr("bad type expression"))
}

func (env *SEnv) ident(name string) *SVal {
	if v, ok := env.vars[name]; ok {
		return v
	}
	u := env.u
	// local variables of the function (for invariants)
	if env.fr != nil {
		if v := env.localVar(name); v != nil {
			return v
		}
	}
	// package-level objects
	if o := u.eng.pkg.Pkg.Scope().Lookup(name); o != nil {
		switch x := o.(type) {
		case *types.Const:
			return &SVal{T: constToTerm(u, x.Val(), x.Type()), Go: x.Type()}
		case *types.Var:
			g := u.eng.pkg.Var(name)
			if g != nil {
				return &SVal{T: u.eng.globalValue(u, env.cur, g), Go: x.Type()}
			}
		}
	}
	// zero-arity spec function / prelude constant
	if sf, ok := u.eng.specs.Specs[name]; ok && len(sf.Params) == 0 {
		return env.callSpec(sf, nil)
	}
	if pf, ok := preludeFns[name]; ok && len(pf.args) == 0 {
		return &SVal{T: Term{name, pf.ret}}
	}
	env.fail("unknown identifier %q in %s", name, env.fn)
	return nil
}

func constToTerm(u *Unit, v constant.Value, t types.Type) Term {
	switch v.Kind() {
	case constant.Bool:
		return BoolLit(constant.BoolVal(v))
	case constant.Int:
		return BigLit(v.ExactString())
	case constant.String:
		return u.eng.strLit(constant.StringVal(v))
	}
	panic(evalErr("unsupported constant"))
}

// localVar resolves a source-level local variable name for invariants: a phi
// of the loop header named after the variable, a value bound to the variable
// by a DebugRef, or an Alloc named after it.
func (env *SEnv) localVar(name string) *SVal {
	fr := env.fr
	fn := fr.fn
	if env.head != nil {
		for _, ins := range env.head.Instrs {
			if phi, ok := ins.(*ssa.Phi); ok && phi.Comment == name {
				if v, ok := fr.vals[phi]; ok {
					return &SVal{T: v.T, Go: phi.Type()}
				}
			}
		}
	}
	var found ssa.Value
	isAddr := false
	n := 0
	for _, b := range fn.Blocks {
		for _, ins := range b.Instrs {
			switch x := ins.(type) {
			case *ssa.DebugRef:
				if id := identName(x); id == name {
					if _, have := fr.vals[x.X]; have {
						if found != x.X {
							n++
						}
						found = x.X
						isAddr = x.IsAddr
					}
				}
			case *ssa.Alloc:
				if x.Comment == name {
					if _, have := fr.vals[x]; have {
						if found != ssa.Value(x) {
							n++
						}
						found = x
						isAddr = true
					}
				}
			}
		}
	}
	if found == nil {
		return nil
	}
	if n > 1 {
		// ambiguous (variable reassigned): prefer a loop-header phi (handled above)
		env.fail("local variable %q is bound to several SSA values; refer to it through a loop-header phi", name)
	}
	v := fr.vals[found]
	if v.T.S == "" {
		env.fail("local %q is not a term value", name)
	}
	if isAddr {
		pt := found.Type().Underlying().(*types.Pointer)
		return &SVal{Go: pt.Elem(), Addr: v.T, HasAddr: true}
	}
	return &SVal{T: v.T, Go: found.Type()}
}

func (env *SEnv) field(e *SExpr) *SVal {
	x := env.evalPlace(e.Args[0])
	if x.Go == nil {
		env.fail("field %s of spec-sorted value", e.Name)
	}
	t := x.Go
	var base Term
	haveAddr := false
	if pt, ok := t.Underlying().(*types.Pointer); ok {
		xv := env.value(x)
		base = xv.T
		haveAddr = true
		t = pt.Elem()
	} else if x.HasAddr {
		base = x.Addr
		haveAddr = true
	}
	st, ok := t.Underlying().(*types.Struct)
	if !ok {
		env.fail("field %s of non-struct type %s", e.Name, t)
	}
	for i := 0; i < st.NumFields(); i++ {
		if st.Field(i).Name() == e.Name {
			if haveAddr {
				return &SVal{Go: st.Field(i).Type(), Addr: FieldAddrT(base, i), HasAddr: true}
			}
			si := env.u.eng.reg.Struct(t)
			xv := env.value(x)
			return &SVal{T: App(si.Fields[i].Sort, si.Fields[i].Sel, xv.T), Go: st.Field(i).Type()}
		}
	}
	env.fail("no field %s in %s", e.Name, t)
	return nil
}

func (env *SEnv) index(e *SExpr) *SVal {
	u := env.u
	x := env.eval(e.Args[0])
	if x.Go == nil {
		switch x.T.Sort {
		case SBytes:
			return &SVal{T: App(SInt, "bat", x.T, env.evalI(e.Args[1]))}
		}
		if strings.HasPrefix(string(x.T.Sort), "(Array ") {
			k := env.eval(e.Args[1])
			k = env.coerce(k, arrayKeySort(x.T.Sort))
			return &SVal{T: Select(x.T, k.T)}
		}
		env.fail("index of sort %s", x.T.Sort)
	}
	switch t := x.Go.Underlying().(type) {
	case *types.Slice:
		i := env.evalI(e.Args[1])
		es := u.elemSort(t.Elem())
		el := Select(Select(u.comp(env.cur, ecomp(es)), SArr(x.T)), ElemIdx(SOff(x.T), i))
		env.assumeWF(el, t.Elem())
		return &SVal{T: el, Go: t.Elem()}
	case *types.Map:
		k := env.eval(e.Args[1])
		k = env.coerceGo(k, t.Key())
		_, mv, _, vs := u.mapComps(t)
		if vs == SUnit {
			env.fail("index of set-like map")
		}
		mvv := Select(Select(u.comp(env.cur, mv), x.T), k.T)
		env.assumeWF(mvv, t.Elem())
		return &SVal{T: mvv, Go: t.Elem()}
	case *types.Basic:
		if isString(x.Go) {
			return &SVal{T: App(SInt, "str_at", x.T, env.evalI(e.Args[1])), Go: types.Typ[types.Uint8]}
		}
	}
	env.fail("cannot index %s", x.Go)
	return nil
}

func (env *SEnv) sliceExpr(e *SExpr) *SVal {
	x := env.eval(e.Args[0])
	lo := IntLit(0)
	if e.Args[1] != nil {
		lo = env.evalI(e.Args[1])
	}
	if x.Go == nil && x.T.Sort == SBytes {
		hi := App(SInt, "blen", x.T)
		if e.Args[2] != nil {
			hi = env.evalI(e.Args[2])
		}
		return &SVal{T: App(SBytes, "bsub", x.T, lo, hi)}
	}
	if _, ok := x.Go.Underlying().(*types.Slice); ok {
		hi := SLen(x.T)
		if e.Args[2] != nil {
			hi = env.evalI(e.Args[2])
		}
		return &SVal{T: MkSlice(SArr(x.T), Add(SOff(x.T), lo), Sub(hi, lo), Sub(SCap(x.T), lo)), Go: x.Go}
	}
	env.fail("cannot slice")
	return nil
}

// coerceGo adapts a spec value to Go type t (wrapping into interfaces, typing nil).
func (env *SEnv) coerceGo(v *SVal, t types.Type) *SVal {
	reg := env.u.eng.reg
	if v.IsNil {
		return &SVal{T: reg.ZeroOf(t), Go: t}
	}
	want := reg.SortOf(t)
	if v.T.Sort == want {
		if want == SAny && v.Go != nil {
			if _, isIface := v.Go.Underlying().(*types.Interface); !isIface {
				// cannot happen: non-interface Go type with Any sort
			}
		}
		if want != SAny || v.Go == nil {
			return v
		}
		if _, isIface := v.Go.Underlying().(*types.Interface); isIface {
			return v
		}
	}
	if want == SAny {
		if v.Go == nil {
			if v.T.Sort == SInt {
				env.fail("untyped integer used where an interface value is expected; write e.g. int64(1)")
			}
			env.fail("cannot convert spec value of sort %s to interface", v.T.Sort)
		}
		return &SVal{T: env.u.makeIface(v.Go, v.T), Go: t}
	}
	env.fail("cannot use value of sort %s as %s", v.T.Sort, t)
	return nil
}

func (env *SEnv) coerce(v *SVal, s Sort) *SVal {
	if v.IsNil {
		switch s {
		case SAny:
			return &SVal{T: AnyNil}
		case SAddr:
			return &SVal{T: NilAddr}
		case SSlice:
			return &SVal{T: NilSlice}
		case SInt:
			return &SVal{T: IntLit(0)}
		}
	}
	if v.T.Sort == s {
		return v
	}
	if s == SAny && v.Go != nil {
		return &SVal{T: env.u.makeIface(v.Go, v.T), Go: types.Universe.Lookup("any").Type()}
	}
	env.fail("sort mismatch: have %s want %s (%s)", v.T.Sort, s, v.T.S)
	return nil
}

// unify makes two values comparable.
func (env *SEnv) unify(a, b *SVal) (*SVal, *SVal) {
	if a.IsNil && b.IsNil {
		return a, b
	}
	if a.IsNil {
		if b.Go != nil {
			return env.coerceGo(a, b.Go), b
		}
		return env.coerce(a, b.T.Sort), b
	}
	if b.IsNil {
		if a.Go != nil {
			return a, env.coerceGo(b, a.Go)
		}
		return a, env.coerce(b, a.T.Sort)
	}
	if a.T.Sort == b.T.Sort {
		return a, b
	}
	if a.T.Sort == SAny {
		return a, env.coerce(b, SAny)
	}
	if b.T.Sort == SAny {
		return env.coerce(a, SAny), b
	}
	env.fail("incomparable sorts %s and %s", a.T.Sort, b.T.Sort)
	return nil, nil
}

func (env *SEnv) binary(e *SExpr) *SVal {
	boolT := types.Typ[types.Bool]
	switch e.Op {
	case "&&":
		return &SVal{T: And(env.evalB(e.Args[0]), env.evalB(e.Args[1])), Go: boolT}
	case "||":
		return &SVal{T: Or(env.evalB(e.Args[0]), env.evalB(e.Args[1])), Go: boolT}
	case "==>":
		return &SVal{T: Implies(env.evalB(e.Args[0]), env.evalB(e.Args[1])), Go: boolT}
	case "<==>":
		return &SVal{T: Iff(env.evalB(e.Args[0]), env.evalB(e.Args[1])), Go: boolT}
	case "==", "!=":
		a, b := env.eval(e.Args[0]), env.eval(e.Args[1])
		a, b = env.unify(a, b)
		var eq Term
		if a.IsNil && b.IsNil {
			eq = True
		} else if a.T.Sort == SSlice && (isNilSliceTerm(a.T) || isNilSliceTerm(b.T)) {
			o := a.T
			if isNilSliceTerm(a.T) {
				o = b.T
			}
			eq = Eq(SArr(o), IntLit(0))
		} else {
			eq = Eq(a.T, b.T)
		}
		if e.Op == "!=" {
			eq = Not(eq)
		}
		return &SVal{T: eq, Go: boolT}
	case "<", "<=", ">", ">=":
		a, b := env.evalI(e.Args[0]), env.evalI(e.Args[1])
		return &SVal{T: App(SBool, e.Op, a, b), Go: boolT}
	case "+", "-", "*":
		a, b := env.eval(e.Args[0]), env.eval(e.Args[1])
		if a.T.Sort == SBytes && e.Op == "+" {
			return &SVal{T: App(SBytes, "bcat", a.T, b.T)}
		}
		if a.T.Sort != SInt || b.T.Sort != SInt {
			env.fail("arithmetic on non-integers")
		}
		return &SVal{T: App(SInt, e.Op, a.T, b.T)}
	case "/":
		return &SVal{T: App(SInt, "div", env.evalI(e.Args[0]), env.evalI(e.Args[1]))}
	case "%":
		return &SVal{T: App(SInt, "mod", env.evalI(e.Args[0]), env.evalI(e.Args[1]))}
	case "in":
		k := env.eval(e.Args[0])
		m := env.eval(e.Args[1])
		if m.Go == nil {
			if strings.HasPrefix(string(m.T.Sort), "(Array ") {
				k = env.coerce(k, arrayKeySort(m.T.Sort))
				return &SVal{T: Select(m.T, k.T), Go: boolT}
			}
			env.fail("'in' on sort %s", m.T.Sort)
		}
		mt, ok := m.Go.Underlying().(*types.Map)
		if !ok {
			env.fail("'in' needs a map")
		}
		k = env.coerceGo(k, mt.Key())
		md, _, _, _ := env.u.mapComps(mt)
		// a nil map has no keys
		return &SVal{T: And(Neq(m.T, IntLit(0)), Select(Select(env.u.comp(env.cur, md), m.T), k.T)), Go: boolT}
	}
	env.fail("unknown operator %s", e.Op)
	return nil
}

func isNilSliceTerm(t Term) bool { return t.S == NilSlice.S }

func identName(d *ssa.DebugRef) string {
	if id, ok := d.Expr.(*ast.Ident); ok {
		return id.Name
	}
	return ""
}

// autoPatterns picks triggers for a quantified body: the innermost array reads
// (select A idx) whose index mentions the bound variable(s). Each candidate that
// contains every bound variable becomes an alternative pattern.
func autoPatterns(body string, vars []Term) [][]Term {
	var cands []string
	seen := map[string]bool{}
	for i := 0; i+8 <= len(body); i++ {
		if !strings.HasPrefix(body[i:], "(select ") {
			continue
		}
		sub := firstSexp(body[i:])
		all := true
		for _, v := range vars {
			if !strings.Contains(sub, v.S) {
				all = false
			}
		}
		if !all {
			continue
		}
		// innermost: no strictly smaller select inside that still has all variables
		inner := false
		for j := 1; j+8 <= len(sub); j++ {
			if strings.HasPrefix(sub[j:], "(select ") {
				s2 := firstSexp(sub[j:])
				ok := true
				for _, v := range vars {
					if !strings.Contains(s2, v.S) {
						ok = false
					}
				}
				if ok {
					inner = true
					break
				}
			}
		}
		if inner || seen[sub] {
			continue
		}
		// triggers must not contain quantifiers or let-bound structure
		bad := false
		for _, op := range []string{"(forall ", "(exists ", "(ite ", "(or ", "(and ", "(not ", "(=> ", "(= ", "(< ", "(<= ", "(> ", "(>= ", "(_ is ", "((_ is "} {
			if strings.Contains(sub, op) {
				bad = true
			}
		}
		if bad {
			continue
		}
		seen[sub] = true
		cands = append(cands, sub)
	}
	var out [][]Term
	for _, c := range cands {
		if len(out) >= 4 {
			break
		}
		out = append(out, []Term{{c, SBool}})
	}
	return out
}
