package main

import (
	"regexp"
	"strings"
)

// Relevance filter for the fixed prelude: a quantified axiom can only ever be
// instantiated if the function symbols of (one of) its patterns occur in the
// query, directly or through other included axioms. Axioms that cannot fire
// are left out of the query. Dropping assumptions never makes an obligation
// provable that was not provable before (sound); it only keeps the solvers'
// search space small and their running times stable.

var symRe = regexp.MustCompile(`\|[^|]*\||[A-Za-z_][A-Za-z0-9_!.\-]*`)

type preludeItem struct {
	text     string
	isAssert bool
	patterns [][]string // symbols of each pattern (interesting ones only)
	syms     []string   // all interesting symbols
}

type preludeIndex struct {
	items       []preludeItem
	interesting map[string]bool
}

func splitTopLevelSexps(s string) []string {
	var out []string
	depth := 0
	start := -1
	inComment := false
	inQuote := false
	for i := 0; i < len(s); i++ {
		c := s[i]
		if inComment {
			if c == '\n' {
				inComment = false
			}
			continue
		}
		if inQuote {
			if c == '|' {
				inQuote = false
			}
			continue
		}
		switch c {
		case ';':
			if depth == 0 {
				inComment = true
			} else {
				// comment inside an s-expression line (e.g. after an axiom): skip to end of line
				inComment = true
			}
		case '|':
			inQuote = true
		case '(':
			if depth == 0 {
				start = i
			}
			depth++
		case ')':
			depth--
			if depth == 0 && start >= 0 {
				out = append(out, s[start:i+1])
				start = -1
			}
		}
	}
	return out
}

func buildPreludeIndex(prelude string) *preludeIndex {
	ix := &preludeIndex{interesting: map[string]bool{}}
	sexps := splitTopLevelSexps(prelude)
	for _, sx := range sexps {
		if strings.HasPrefix(sx, "(declare-fun ") || strings.HasPrefix(sx, "(declare-const ") || strings.HasPrefix(sx, "(define-fun ") {
			f := strings.Fields(sx[1:])
			if len(f) >= 2 {
				ix.interesting[strings.TrimRight(f[1], "()")] = true
			}
		}
	}
	// symbols that are too common to be informative
	for _, k := range []string{"select", "store"} {
		delete(ix.interesting, k)
	}
	for _, sx := range sexps {
		it := preludeItem{text: sx}
		if strings.HasPrefix(sx, "(assert ") {
			it.isAssert = true
			seen := map[string]bool{}
			for _, m := range symRe.FindAllString(sx, -1) {
				if ix.interesting[m] && !seen[m] {
					seen[m] = true
					it.syms = append(it.syms, m)
				}
			}
			// patterns
			rest := sx
			for {
				j := strings.Index(rest, ":pattern (")
				if j < 0 {
					break
				}
				p := firstSexp(rest[j+len(":pattern "):])
				var ps []string
				ss := map[string]bool{}
				for _, m := range symRe.FindAllString(p, -1) {
					if ix.interesting[m] && !ss[m] {
						ss[m] = true
						ps = append(ps, m)
					}
				}
				it.patterns = append(it.patterns, ps)
				rest = rest[j+len(":pattern ("):]
			}
		}
		ix.items = append(ix.items, it)
	}
	return ix
}

// filter returns the prelude restricted to what can matter for a query whose non-prelude text is `body`.
func (ix *preludeIndex) filter(body string) string {
	have := map[string]bool{}
	for _, m := range symRe.FindAllString(body, -1) {
		if ix.interesting[m] {
			have[m] = true
		}
	}
	included := make([]bool, len(ix.items))
	// definitions (define-fun) bring in the symbols of their bodies when they are used
	defBody := map[string][]string{}
	for _, it := range ix.items {
		if strings.HasPrefix(it.text, "(define-fun ") {
			f := strings.Fields(it.text[1:])
			name := strings.TrimRight(f[1], "()")
			for _, m := range symRe.FindAllString(it.text, -1) {
				if ix.interesting[m] && m != name {
					defBody[name] = append(defBody[name], m)
				}
			}
		}
	}
	changed := true
	for changed {
		changed = false
		for name, syms := range defBody {
			if have[name] {
				for _, s := range syms {
					if !have[s] {
						have[s] = true
						changed = true
					}
				}
			}
		}
		for i, it := range ix.items {
			if !it.isAssert || included[i] {
				continue
			}
			fire := false
			if len(it.patterns) == 0 {
				// ground fact or pattern-less axiom: relevant if it shares a symbol with the query
				for _, s := range it.syms {
					if have[s] {
						fire = true
						break
					}
				}
				if len(it.syms) == 0 {
					fire = true
				}
			} else {
				for _, ps := range it.patterns {
					all := true
					for _, s := range ps {
						if !have[s] {
							all = false
							break
						}
					}
					if all {
						fire = true
						break
					}
				}
			}
			if fire {
				included[i] = true
				changed = true
				for _, s := range it.syms {
					have[s] = true
				}
			}
		}
	}
	var sb strings.Builder
	for i, it := range ix.items {
		if it.isAssert && !included[i] {
			continue
		}
		sb.WriteString(it.text)
		sb.WriteString("\n")
	}
	return sb.String()
}
