package main

import (
	"fmt"
	"go/types"
	"sort"
	"strings"
)

// TypeReg maps Go types to SMT sorts and keeps the registry of struct sorts
// and of the dynamic types that get their own constructor in the Any datatype.
type TypeReg struct {
	structs    map[string]*StructInfo // key: canonical type string of the struct (named or literal)
	structList []*StructInfo
	anyCons    map[string]*AnyCon // key: canonical type string
	anyList    []*AnyCon
	frozen     bool
}

type StructInfo struct {
	Key    string
	Name   string // SMT sort name
	T      *types.Struct
	Named  types.Type
	Fields []FieldInfo
}

type FieldInfo struct {
	Name string
	Sel  string // selector function name
	T    types.Type
	Sort Sort
}

type AnyCon struct {
	Key     string
	T       types.Type
	Con     string // constructor name
	Sel     string // selector name
	Payload Sort
	ID      int
}

func NewTypeReg() *TypeReg {
	return &TypeReg{structs: map[string]*StructInfo{}, anyCons: map[string]*AnyCon{}}
}

func typeKey(t types.Type) string {
	return types.TypeString(t, func(p *types.Package) string { return p.Path() })
}

func mangle(s string) string {
	var sb strings.Builder
	for _, r := range s {
		switch {
		case r >= 'a' && r <= 'z', r >= 'A' && r <= 'Z', r >= '0' && r <= '9', r == '_':
			sb.WriteRune(r)
		case r == '*':
			sb.WriteString("P_")
		case r == '[':
			sb.WriteString("L")
		case r == ']':
			sb.WriteString("J")
		case r == '.', r == '/':
			sb.WriteString("_")
		case r == ' ':
		default:
			sb.WriteString("x")
		}
	}
	return sb.String()
}

func shortTypeName(t types.Type) string {
	s := types.TypeString(t, func(p *types.Package) string {
		if p.Path() == "github.com/veraison/go-cose" {
			return ""
		}
		return p.Name()
	})
	return mangle(s)
}

// SortOf returns the SMT sort of values of Go type t.
func (r *TypeReg) SortOf(t types.Type) Sort {
	switch u := t.Underlying().(type) {
	case *types.Basic:
		switch {
		case u.Info()&types.IsBoolean != 0:
			return SBool
		case u.Info()&types.IsInteger != 0:
			return SInt
		case u.Info()&types.IsString != 0:
			return SStr
		case u.Kind() == types.UnsafePointer:
			return SAddr
		case u.Info()&types.IsFloat != 0:
			return "Real"
		case u.Kind() == types.UntypedNil:
			return SAny
		}
	case *types.Pointer:
		return SAddr
	case *types.Slice:
		return SSlice
	case *types.Map:
		return SInt
	case *types.Interface:
		return SAny
	case *types.Struct:
		return Sort(r.Struct(t).Name)
	case *types.Signature:
		return SInt
	case *types.Array:
		// array values are represented by the id of an element store
		return SInt
	case *types.Chan:
		return SInt
	case *types.Tuple:
		return SUnit
	}
	panic(fmt.Sprintf("SortOf: unsupported type %s", t))
}

func (r *TypeReg) Struct(t types.Type) *StructInfo {
	st := t.Underlying().(*types.Struct)
	key := typeKey(t)
	if _, named := t.(*types.Named); !named {
		key = typeKey(st)
	}
	if si, ok := r.structs[key]; ok {
		return si
	}
	if r.frozen {
		panic("type registry frozen; struct not pre-registered: " + key)
	}
	si := &StructInfo{Key: key, T: st, Named: t}
	si.Name = "S_" + shortTypeName(t)
	if len(si.Name) > 60 {
		si.Name = fmt.Sprintf("S_anon%d", len(r.structList))
	}
	for _, o := range r.structList {
		if o.Name == si.Name {
			si.Name = fmt.Sprintf("%s_%d", si.Name, len(r.structList))
		}
	}
	r.structs[key] = si
	r.structList = append(r.structList, si)
	for i := 0; i < st.NumFields(); i++ {
		f := st.Field(i)
		fi := FieldInfo{Name: f.Name(), T: f.Type()}
		fi.Sel = fmt.Sprintf("%s_f%d", si.Name, i)
		fi.Sort = r.SortOf(f.Type())
		si.Fields = append(si.Fields, fi)
	}
	return si
}

// AnyCon returns the Any constructor for dynamic type t (registering it).
func (r *TypeReg) AnyConOf(t types.Type) *AnyCon {
	if _, ok := t.Underlying().(*types.Interface); ok {
		panic("AnyConOf on interface type " + t.String())
	}
	key := typeKey(t)
	if c, ok := r.anyCons[key]; ok {
		return c
	}
	if r.frozen {
		return nil
	}
	c := &AnyCon{Key: key, T: t, ID: len(r.anyList) + 1}
	n := shortTypeName(t)
	if len(n) > 60 {
		n = fmt.Sprintf("anon%d", c.ID)
	}
	c.Con = "A_" + n
	for _, o := range r.anyList {
		if o.Con == c.Con {
			c.Con = fmt.Sprintf("%s_%d", c.Con, c.ID)
		}
	}
	c.Sel = "val_" + c.Con[2:]
	c.Payload = r.SortOf(t)
	r.anyCons[key] = c
	r.anyList = append(r.anyList, c)
	return c
}

// Prelude emits the datatype declarations.
func (r *TypeReg) Prelude() string {
	var sb strings.Builder
	sb.WriteString("(declare-sort Str 0)\n(declare-sort Bytes 0)\n")
	sb.WriteString("(declare-datatypes ((Unit 0)) (((unit))))\n")
	sb.WriteString("(declare-datatypes ((Path 0)) (((pnil) (pcons (phd Int) (ptl Path)))))\n")
	sb.WriteString("(declare-datatypes ((Addr 0)) (((mk-addr (aobj Int) (apath Path)))))\n")
	sb.WriteString("(declare-datatypes ((Slice 0)) (((mk-slice (sarr Int) (soff Int) (slen Int) (scap Int)))))\n")
	sb.WriteString("(declare-datatypes ((CV 0) (CVList 0)) (((cv_null) (cv_undef) (cv_int (cv_ival Int)) (cv_bool (cv_bval Bool)) (cv_tstr (cv_sval Str)) (cv_bstr (cv_bytes Bytes)) (cv_raw (cv_rawbytes Bytes)) (cv_arr (cv_elems CVList)) (cv_tag (cv_tagnum Int) (cv_tagged CV)) (cv_map (cv_mapid Int)) (cv_opaque (cv_oid Int))) ((cvnil) (cvcons (cvhd CV) (cvtl CVList)))))\n")
	// Any + structs, mutually recursive
	var names, bodies []string
	names = append(names, "(Any 0)")
	var ab strings.Builder
	ab.WriteString("((A_nil) (A_other (other_tid Int) (other_h Int))")
	for _, c := range r.anyList {
		fmt.Fprintf(&ab, " (%s (%s %s))", c.Con, c.Sel, c.Payload)
	}
	ab.WriteString(")")
	bodies = append(bodies, ab.String())
	for _, si := range r.structList {
		names = append(names, fmt.Sprintf("(%s 0)", si.Name))
		var b strings.Builder
		fmt.Fprintf(&b, "((mk_%s", si.Name)
		for _, f := range si.Fields {
			fmt.Fprintf(&b, " (%s %s)", f.Sel, f.Sort)
		}
		b.WriteString("))")
		bodies = append(bodies, b.String())
	}
	fmt.Fprintf(&sb, "(declare-datatypes (%s) (%s))\n", strings.Join(names, " "), strings.Join(bodies, " "))
	return sb.String()
}

// ZeroOf returns the zero value term for a type.
func (r *TypeReg) ZeroOf(t types.Type) Term {
	s := r.SortOf(t)
	switch s {
	case SInt:
		return IntLit(0)
	case SBool:
		return False
	case SStr:
		return Term{"str_empty", SStr}
	case SAddr:
		return NilAddr
	case SSlice:
		return NilSlice
	case SAny:
		return AnyNil
	case "Real":
		return Term{"0.0", "Real"}
	case SUnit:
		return Term{"unit", SUnit}
	}
	if st, ok := t.Underlying().(*types.Struct); ok {
		si := r.Struct(t)
		args := make([]Term, st.NumFields())
		for i := range args {
			args[i] = r.ZeroOf(st.Field(i).Type())
		}
		return App(Sort(si.Name), "mk_"+si.Name, args...)
	}
	panic("ZeroOf: " + t.String())
}

var (
	NilAddr  = Term{"(mk-addr 0 pnil)", SAddr}
	NilSlice = Term{"(mk-slice 0 0 0 0)", SSlice}
	AnyNil   = Term{"A_nil", SAny}
)

func MkAddr(obj Term) Term { return App(SAddr, "mk-addr", obj, Term{"pnil", "Path"}) }
func FieldAddrT(base Term, idx int) Term {
	return App(SAddr, "mk-addr", App(SInt, "aobj", base),
		App("Path", "pcons", IntLit(int64(idx)), App("Path", "apath", base)))
}
func MkSlice(arr, off, ln, cp Term) Term { return App(SSlice, "mk-slice", arr, off, ln, cp) }
// ElemIdx is the position of element i of a slice with offset off in its element store.
// It is off+i, wrapped in a function so that quantifier triggers do not contain arithmetic.
func ElemIdx(off, i Term) Term { return App(SInt, "idx_at", off, i) }
func SArr(s Term) Term                   { return App(SInt, "sarr", s) }
func SOff(s Term) Term                   { return App(SInt, "soff", s) }
func SLen(s Term) Term                   { return App(SInt, "slen", s) }
func SCap(s Term) Term                   { return App(SInt, "scap", s) }

// integer ranges
func intRange(t types.Type) (lo, hi string, ok bool) {
	b, isb := t.Underlying().(*types.Basic)
	if !isb || b.Info()&types.IsInteger == 0 {
		return "", "", false
	}
	switch b.Kind() {
	case types.Int8:
		return "-128", "127", true
	case types.Int16:
		return "-32768", "32767", true
	case types.Int32:
		return "-2147483648", "2147483647", true
	case types.Int, types.Int64, types.UntypedInt:
		return "-9223372036854775808", "9223372036854775807", true
	case types.Uint8:
		return "0", "255", true
	case types.Uint16:
		return "0", "65535", true
	case types.Uint32:
		return "0", "4294967295", true
	case types.Uint, types.Uint64, types.Uintptr:
		return "0", "18446744073709551615", true
	}
	return "", "", false
}

func intBits(t types.Type) (bits int, signed bool) {
	b := t.Underlying().(*types.Basic)
	switch b.Kind() {
	case types.Int8:
		return 8, true
	case types.Int16:
		return 16, true
	case types.Int32:
		return 32, true
	case types.Int, types.Int64, types.UntypedInt:
		return 64, true
	case types.Uint8:
		return 8, false
	case types.Uint16:
		return 16, false
	case types.Uint32:
		return 32, false
	case types.Uint, types.Uint64, types.Uintptr:
		return 64, false
	}
	return 64, true
}

func pow2(n int) string {
	// exact decimal string of 2^n for n<=64
	tbl := map[int]string{8: "256", 16: "65536", 32: "4294967296", 64: "18446744073709551616",
		7: "128", 15: "32768", 31: "2147483648", 63: "9223372036854775808"}
	if s, ok := tbl[n]; ok {
		return s
	}
	v := uint64(1) << uint(n)
	return fmt.Sprintf("%d", v)
}

// Wrap gives the value of mathematical integer x reduced into the range of integer type t.
func Wrap(x Term, t types.Type) Term {
	bits, signed := intBits(t)
	m := BigLit(pow2(bits))
	if !signed {
		return App(SInt, "mod", x, m)
	}
	h := BigLit(pow2(bits - 1))
	// ((x + h) mod m) - h
	return Sub(App(SInt, "mod", Add(x, h), m), h)
}

func InRange(x Term, t types.Type) Term {
	lo, hi, ok := intRange(t)
	if !ok {
		return True
	}
	return And(Le(BigLit(lo), x), Le(x, BigLit(hi)))
}

// sortedAnyCons returns constructors sorted by name (deterministic output).
func (r *TypeReg) sortedAnyCons() []*AnyCon {
	l := append([]*AnyCon(nil), r.anyList...)
	sort.Slice(l, func(i, j int) bool { return l[i].Con < l[j].Con })
	return l
}
