package main

import (
	"fmt"
	"os"
	"regexp"
	"strings"
)

// Contract is the set of clauses attached to one function.
type Contract struct {
	Func     string
	Extern   bool
	Inline   bool
	Trusted  bool
	Pure     bool
	Clauses  []*Clause
	Line     int
	LoopBind map[int]string
}

type Clause struct {
	Kind  string // requires, ensures, modifies, invariant, assert
	Loop  int    // for invariants
	Label string
	Tags  []string
	Src   string
	Expr  *SExpr
	Mods  []*SExpr // for modifies
	ModsNothing bool
	ModsAny bool // no frame is promised: callers lose all knowledge of the heap
	Line  int
	Func  string
	Callee string // for callsite clauses: callee name; Loop holds the ordinal
	used  bool
}

type SpecFn struct {
	Name   string
	Params []Binder
	Ret    *STypeExpr
	Body   *SExpr // nil => uninterpreted
	Src    string
	Line   int
}

type Axiom struct {
	Label string
	Tags  []string
	Src   string
	Expr  *SExpr
	Lemma bool
	Line  int
}

type SpecFile struct {
	Contracts map[string]*Contract
	Order     []*Contract
	Specs     map[string]*SpecFn
	Axioms    []*Axiom
	Lemmas    []*Axiom
}

var clauseHead = regexp.MustCompile(`^(requires|ensures|modifies|assert|decreases)\s+(?:([A-Za-z_][A-Za-z0-9_]*)\s*)?(?:\[([A-Z0-9, ]*)\]\s*)?:\s*(.*)$`)
var loopHead = regexp.MustCompile(`^loop\s+(\d+)\s+invariant\s+(?:([A-Za-z_][A-Za-z0-9_]*)\s*)?(?:\[([A-Z0-9, ]*)\]\s*)?:\s*(.*)$`)
var callsiteHead = regexp.MustCompile(`^callsite\s+([A-Za-z_][A-Za-z0-9_]*)\s*(?:\[([A-Z0-9, ]*)\]\s*)?(\S+?)#(\d+)\s*:\s*(.*)$`)
var axiomHead = regexp.MustCompile(`^(axiom|lemma)\s+([A-Za-z_][A-Za-z0-9_]*)\s*(?:\[([A-Z0-9, ]*)\]\s*)?:\s*(.*)$`)
var specHead = regexp.MustCompile(`^spec\s+([A-Za-z_][A-Za-z0-9_]*)\s*\(([^)]*)\)\s*([^=]+?)\s*(?:=\s*(.*))?$`)

func splitTags(s string) []string {
	var out []string
	for _, t := range strings.Split(s, ",") {
		t = strings.TrimSpace(t)
		if t != "" {
			out = append(out, t)
		}
	}
	return out
}

// ParseSpecFiles reads contract files (comment lines starting with //@).
func ParseSpecFiles(paths []string) (*SpecFile, error) {
	sf := &SpecFile{Contracts: map[string]*Contract{}, Specs: map[string]*SpecFn{}}
	for _, p := range paths {
		data, err := os.ReadFile(p)
		if err != nil {
			return nil, err
		}
		if err := sf.parse(p, string(data)); err != nil {
			return nil, err
		}
	}
	return sf, nil
}

type rawItem struct {
	text string
	line int
}

func (sf *SpecFile) parse(path, src string) error {
	// collect logical items: an item starts at a //@ line whose content begins
	// with a keyword; other //@ lines continue the previous item.
	var items []rawItem
	kw := regexp.MustCompile(`^(func|extern|spec|axiom|lemma|requires|ensures|modifies|assert|decreases|callsite|loop|inline|trusted|pure)\b`)
	for i, ln := range strings.Split(src, "\n") {
		t := strings.TrimSpace(ln)
		if !strings.HasPrefix(t, "//@") {
			continue
		}
		c := strings.TrimSpace(t[3:])
		if c == "" {
			continue
		}
		// strip trailing comments introduced by " //"
		if j := strings.Index(c, " //"); j >= 0 {
			c = strings.TrimSpace(c[:j])
		}
		if kw.MatchString(c) {
			items = append(items, rawItem{c, i + 1})
		} else if len(items) > 0 {
			items[len(items)-1].text += " " + c
		} else {
			return fmt.Errorf("%s:%d: continuation without item", path, i+1)
		}
	}
	var cur *Contract
	for _, it := range items {
		c := it.text
		loc := fmt.Sprintf("%s:%d", path, it.line)
		switch {
		case strings.HasPrefix(c, "func ") || strings.HasPrefix(c, "extern "):
			ext := strings.HasPrefix(c, "extern ")
			name := strings.TrimSpace(c[strings.Index(c, " ")+1:])
			if _, dup := sf.Contracts[name]; dup {
				return fmt.Errorf("%s: duplicate contract for %s", loc, name)
			}
			cur = &Contract{Func: name, Extern: ext, Line: it.line, LoopBind: map[int]string{}}
			sf.Contracts[name] = cur
			sf.Order = append(sf.Order, cur)
		case c == "inline":
			cur.Inline = true
		case c == "trusted":
			cur.Trusted = true
		case c == "pure":
			cur.Pure = true
		case strings.HasPrefix(c, "spec "):
			m := specHead.FindStringSubmatch(c)
			if m == nil {
				return fmt.Errorf("%s: bad spec declaration: %s", loc, c)
			}
			fn := &SpecFn{Name: m[1], Src: c, Line: it.line}
			if strings.TrimSpace(m[2]) != "" {
				for _, ps := range strings.Split(m[2], ",") {
					ps = strings.TrimSpace(ps)
					sp := strings.IndexAny(ps, " \t")
					if sp < 0 {
						return fmt.Errorf("%s: bad spec parameter %q", loc, ps)
					}
					ty, err := parseTypeString(strings.TrimSpace(ps[sp:]))
					if err != nil {
						return fmt.Errorf("%s: %v", loc, err)
					}
					fn.Params = append(fn.Params, Binder{ps[:sp], ty})
				}
			}
			ty, err := parseTypeString(strings.TrimSpace(m[3]))
			if err != nil {
				return fmt.Errorf("%s: %v", loc, err)
			}
			fn.Ret = ty
			if strings.TrimSpace(m[4]) != "" {
				e, err := parseSpecExpr(m[4])
				if err != nil {
					return fmt.Errorf("%s: %v", loc, err)
				}
				fn.Body = e
			}
			if _, dup := sf.Specs[fn.Name]; dup {
				return fmt.Errorf("%s: duplicate spec %s", loc, fn.Name)
			}
			sf.Specs[fn.Name] = fn
		case strings.HasPrefix(c, "axiom ") || strings.HasPrefix(c, "lemma "):
			m := axiomHead.FindStringSubmatch(c)
			if m == nil {
				return fmt.Errorf("%s: bad axiom/lemma: %s", loc, c)
			}
			e, err := parseSpecExpr(m[4])
			if err != nil {
				return fmt.Errorf("%s: %v", loc, err)
			}
			a := &Axiom{Label: m[2], Tags: splitTags(m[3]), Src: m[4], Expr: e, Lemma: m[1] == "lemma", Line: it.line}
			if a.Lemma {
				sf.Lemmas = append(sf.Lemmas, a)
			} else {
				sf.Axioms = append(sf.Axioms, a)
			}
		case strings.HasPrefix(c, "callsite "):
			if cur == nil {
				return fmt.Errorf("%s: clause outside func", loc)
			}
			m := callsiteHead.FindStringSubmatch(c)
			if m == nil {
				return fmt.Errorf("%s: bad callsite clause: %s", loc, c)
			}
			var n int
			fmt.Sscanf(m[4], "%d", &n)
			e, err := parseSpecExpr(m[5])
			if err != nil {
				return fmt.Errorf("%s: %v", loc, err)
			}
			cur.Clauses = append(cur.Clauses, &Clause{Kind: "callsite", Callee: m[3], Loop: n, Label: m[1], Tags: splitTags(m[2]), Src: m[5], Expr: e, Line: it.line, Func: cur.Func})
		case strings.HasPrefix(c, "loop "):
			if cur == nil {
				return fmt.Errorf("%s: clause outside func", loc)
			}
			m := loopHead.FindStringSubmatch(c)
			if m == nil {
				return fmt.Errorf("%s: bad loop clause: %s", loc, c)
			}
			var n int
			fmt.Sscanf(m[1], "%d", &n)
			e, err := parseSpecExpr(m[4])
			if err != nil {
				return fmt.Errorf("%s: %v", loc, err)
			}
			lbl := m[2]
			if lbl == "" {
				lbl = fmt.Sprintf("inv%d_%d", n, len(cur.Clauses))
			}
			cur.Clauses = append(cur.Clauses, &Clause{Kind: "invariant", Loop: n, Label: lbl, Tags: splitTags(m[3]), Src: m[4], Expr: e, Line: it.line, Func: cur.Func})
		default:
			if cur == nil {
				return fmt.Errorf("%s: clause outside func", loc)
			}
			m := clauseHead.FindStringSubmatch(c)
			if m == nil {
				return fmt.Errorf("%s: bad clause: %s", loc, c)
			}
			cl := &Clause{Kind: m[1], Label: m[2], Tags: splitTags(m[3]), Src: m[4], Line: it.line, Func: cur.Func}
			if cl.Label == "" {
				cl.Label = fmt.Sprintf("%s%d", cl.Kind, len(cur.Clauses))
			}
			if cl.Kind == "modifies" {
				if strings.TrimSpace(m[4]) == "nothing" {
					cl.ModsNothing = true
				} else if strings.TrimSpace(m[4]) == "anything" {
					cl.ModsAny = true
				} else {
					for _, part := range splitTopLevel(m[4]) {
						e, err := parseSpecExpr(part)
						if err != nil {
							return fmt.Errorf("%s: %v", loc, err)
						}
						cl.Mods = append(cl.Mods, e)
					}
				}
			} else {
				e, err := parseSpecExpr(m[4])
				if err != nil {
					return fmt.Errorf("%s: %v", loc, err)
				}
				cl.Expr = e
			}
			cur.Clauses = append(cur.Clauses, cl)
		}
	}
	return nil
}

func splitTopLevel(s string) []string {
	var out []string
	depth := 0
	start := 0
	for i, c := range s {
		switch c {
		case '(', '[':
			depth++
		case ')', ']':
			depth--
		case ',':
			if depth == 0 {
				out = append(out, strings.TrimSpace(s[start:i]))
				start = i + 1
			}
		}
	}
	out = append(out, strings.TrimSpace(s[start:]))
	return out
}

func parseTypeString(s string) (*STypeExpr, error) {
	toks, err := lexSpec(s)
	if err != nil {
		return nil, err
	}
	p := &sparser{toks: toks, src: s}
	var ty *STypeExpr
	func() {
		defer func() {
			if r := recover(); r != nil {
				if se, ok := r.(specErr); ok {
					err = fmt.Errorf("%s in type %q", string(se), s)
					return
				}
				panic(r)
			}
		}()
		ty = p.typeExpr()
	}()
	return ty, err
}

// visible reports whether a clause is part of the view for property prop
// ("" = all clauses).
// visible: every clause takes part in every check whose dependency cone contains its function, unless it has been
// dropped for this run (second pass of a property check: a clause that fails but belongs only to other properties
// is withdrawn from the assumptions, to see whether this property's proof depends on it).
func (c *Clause) visible(prop string) bool {
	return !droppedClauses[c.Func+"."+c.Label]
}

var droppedClauses = map[string]bool{}

// frameDropped: a component of this modifies clause was not discharged in an earlier pass of the property check
// (and belongs to other properties): callers can then rely on nothing about what the function leaves unchanged.
func (c *Clause) frameDropped() bool {
	if c.Kind != "modifies" {
		return false
	}
	pre := c.Func + "." + c.Label
	for k := range droppedClauses {
		if k == pre || strings.HasPrefix(k, pre+".") {
			return true
		}
	}
	return false
}

// ownedBy: the clause is part of property prop's claim (tagged with it), or shared infrastructure (untagged).
func (c *Clause) ownedBy(prop string) bool {
	if len(c.Tags) == 0 {
		return true
	}
	for _, t := range c.Tags {
		if t == prop {
			return true
		}
	}
	return false
}

// mentionsGhost reports whether any clause of the contract talks about the
// ghost call counter g ("epoch": Signer.Sign / crypto.Signer.Sign / ecdsa.Sign
// invocations, "vepoch": Verifier.Verify invocations). A contract that does not
// mention a counter promises to leave it unchanged, and that promise is checked
// when the function itself is verified.
func (c *Contract) mentionsGhost(g string) bool {
	if c.Extern {
		return false
	}
	re := regexp.MustCompile(`(^|[^a-z])` + g + `\(`)
	for _, cl := range c.Clauses {
		if re.MatchString(cl.Src) {
			return true
		}
	}
	return false
}
