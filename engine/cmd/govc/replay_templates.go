package main

import (
	"context"
	"fmt"
	"os"
	"os/exec"
	"path/filepath"
	"regexp"
	"strconv"
	"strings"
	"time"
)

// Replay templates: for a few functions over plain data (byte strings, integers) a failed obligation is followed by an
// attempt to turn the solver's candidate model into a concrete input and to run the REAL function on it, judged by an
// oracle written independently of the code (the specification function of the contract, in Go). The candidate model is
// taken from the quantifier-free part of the query, so it need not satisfy the axioms; only an input on which the real
// code visibly violates the oracle counts (REPRODUCED). Anything else is reported as no-failing-input-found.

func init() {
	replayTemplates["deterministicBinaryString"] = replayDetBinStr
	replayTemplates["decodeECDSASignature"] = replayDecodeECDSA
	replayTemplates["normalizeLabel"] = replayNormalizeLabel
}

// evalTerms runs z3 on the quantifier-free part of the query (plus extra assertions) and evaluates the given terms.
func evalTerms(o runOpts, query string, extra []string, terms []string) ([]string, bool) {
	var sb strings.Builder
	for _, ln := range strings.Split(query, "\n") {
		if strings.HasPrefix(ln, "(assert (forall") || strings.HasPrefix(ln, "(check-sat)") || strings.HasPrefix(ln, "(get-") {
			continue
		}
		sb.WriteString(ln)
		sb.WriteString("\n")
	}
	for _, a := range extra {
		sb.WriteString("(assert " + a + ")\n")
	}
	sb.WriteString("(check-sat)\n")
	for _, t := range terms {
		sb.WriteString("(echo \"@@\")\n(eval " + t + ")\n")
	}
	dir := filepath.Join(o.verifDir, ".cache", "work")
	os.MkdirAll(dir, 0o755)
	f := filepath.Join(dir, fmt.Sprintf("model_%d_%d.smt2", os.Getpid(), time.Now().UnixNano()))
	os.WriteFile(f, []byte(sb.String()), 0o644)
	defer os.Remove(f)
	ctx, cancel := context.WithTimeout(context.Background(), 30*time.Second)
	defer cancel()
	out, _ := exec.CommandContext(ctx, "z3-new", "-T:20", f).CombinedOutput()
	s := string(out)
	first := strings.TrimSpace(strings.SplitN(s, "\n", 2)[0])
	if first != "sat" && first != "unknown" {
		return nil, false
	}
	parts := strings.Split(s, "@@")
	if len(parts) != len(terms)+1 {
		return nil, false
	}
	var vals []string
	for _, p := range parts[1:] {
		v := strings.TrimSpace(strings.Trim(strings.TrimSpace(p), "\""))
		vals = append(vals, strings.TrimSpace(v))
	}
	return vals, true
}

var smtInt = regexp.MustCompile(`^\(?\s*(-)?\s*(\d+)\s*\)?$`)

func parseSMTInt(s string) (int64, bool) {
	m := smtInt.FindStringSubmatch(strings.TrimSpace(s))
	if m == nil {
		return 0, false
	}
	n, err := strconv.ParseInt(m[2], 10, 64)
	if err != nil {
		return 0, false
	}
	if m[1] == "-" {
		n = -n
	}
	return n, true
}

func paramSymbol(query, name, sort string) string {
	re := regexp.MustCompile(`\(declare-const (\|p!` + regexp.QuoteMeta(name) + `!\d+\|) ` + regexp.QuoteMeta(sort) + `\)`)
	m := re.FindStringSubmatch(query)
	if m == nil {
		return ""
	}
	return m[1]
}

// viewHints: ground instances of the (quantified, hence dropped) axioms that tie the byte view of a slice parameter to the
// heap cells behind it -- its length and its first k bytes -- for every heap term under which the view occurs in the query.
func viewHints(query, p string, k int) []string {
	re := regexp.MustCompile(`\(view \(select (\|[^|]+\|) \(sarr ` + regexp.QuoteMeta(p) + `\)\) \(soff ` + regexp.QuoteMeta(p) + `\) \(slen ` + regexp.QuoteMeta(p) + `\)\)`)
	seen := map[string]bool{}
	var out []string
	for _, m := range re.FindAllStringSubmatch(query, -1) {
		if seen[m[1]] {
			continue
		}
		seen[m[1]] = true
		v := m[0]
		out = append(out, fmt.Sprintf("(= (blen %s) (slen %s))", v, p))
		for i := 0; i < k; i++ {
			out = append(out, fmt.Sprintf("(=> (< %d (slen %s)) (= (bat %s %d) (select (select %s (sarr %s)) (+ (soff %s) %d))))", i, p, v, i, m[1], p, p, i))
		}
	}
	if strings.Contains(query, "idx_at") {
		for i := 0; i < k; i++ {
			out = append(out, fmt.Sprintf("(= (idx_at (soff %s) %d) (+ (soff %s) %d))", p, i, p, i))
		}
	}
	out = append(out, fmt.Sprintf("(>= (slen %s) 0)", p), fmt.Sprintf("(>= (soff %s) 0)", p))
	return out
}

// modelBytes extracts the contents of a []byte parameter from a candidate model (at most max bytes).
func modelBytes(o runOpts, query, param string, max int64, extra []string) ([]byte, bool) {
	p := paramSymbol(query, param, "Slice")
	if p == "" || !strings.Contains(query, "|init!E:Int|") {
		return nil, false
	}
	extra = append(append([]string{}, extra...), viewHints(query, p, 10)...)
	v, ok := evalTerms(o, query, extra, []string{"(slen " + p + ")", "(soff " + p + ")", "(sarr " + p + ")"})
	if !ok {
		return nil, false
	}
	ln, ok1 := parseSMTInt(v[0])
	off, ok2 := parseSMTInt(v[1])
	arr, ok3 := parseSMTInt(v[2])
	if !ok1 || !ok2 || !ok3 || ln < 0 || ln > max {
		return nil, false
	}
	pin := append(append([]string{}, extra...), fmt.Sprintf("(= (slen %s) %d)", p, ln), fmt.Sprintf("(= (soff %s) %d)", p, off), fmt.Sprintf("(= (sarr %s) %d)", p, arr))
	var terms []string
	for i := int64(0); i < ln; i++ {
		terms = append(terms, fmt.Sprintf("(select (select |init!E:Int| %d) %d)", arr, off+i))
	}
	if len(terms) == 0 {
		return []byte{}, true
	}
	vs, ok := evalTerms(o, query, pin, terms)
	if !ok {
		return nil, false
	}
	out := make([]byte, ln)
	for i, s := range vs {
		n, ok := parseSMTInt(s)
		if !ok {
			n = 0 // unconstrained cell
		}
		out[i] = byte(n)
	}
	return out, true
}

func goBytes(b []byte) string {
	var sb strings.Builder
	sb.WriteString("[]byte{")
	for i, x := range b {
		if i > 0 {
			sb.WriteString(", ")
		}
		fmt.Fprintf(&sb, "0x%02x", x)
	}
	sb.WriteString("}")
	return sb.String()
}

func finishReplay(o runOpts, name, src, input string) *ReplayResult {
	out, ok := runReplayTest(o.repo, src, name)
	rr := &ReplayResult{Reproduced: ok, TestName: name, GoTest: src, Output: out, Model: input}
	if !ok {
		rr.Note = "the candidate input taken from the solver's model does not make the real code violate the oracle"
	}
	return rr
}

// ---- deterministicBinaryString ----

const detBinStrTest = `package cose

import (
	"bytes"
	"encoding/binary"
	"testing"
)

// oracle: canon(b) of the contract -- b must be one definite-length bstr item; the result has the shortest head
func zzRefCanon(b []byte) ([]byte, bool) {
	if len(b) == 0 || b[0]>>5 != 2 {
		return nil, false
	}
	ai := b[0] & 0x1f
	var n uint64
	hl := 1
	switch {
	case ai < 24:
		n = uint64(ai)
	case ai == 24:
		hl = 2
	case ai == 25:
		hl = 3
	case ai == 26:
		hl = 5
	case ai == 27:
		hl = 9
	default:
		return nil, false
	}
	if len(b) < hl {
		return nil, false
	}
	switch hl {
	case 2:
		n = uint64(b[1])
	case 3:
		n = uint64(binary.BigEndian.Uint16(b[1:]))
	case 5:
		n = uint64(binary.BigEndian.Uint32(b[1:]))
	case 9:
		n = binary.BigEndian.Uint64(b[1:])
	}
	if uint64(len(b)-hl) != n {
		return nil, false
	}
	content := b[hl:]
	var head []byte
	switch {
	case n < 24:
		head = []byte{0x40 | byte(n)}
	case n < 1<<8:
		head = []byte{0x58, byte(n)}
	case n < 1<<16:
		head = []byte{0x59, 0, 0}
		binary.BigEndian.PutUint16(head[1:], uint16(n))
	case n < 1<<32:
		head = []byte{0x5a, 0, 0, 0, 0}
		binary.BigEndian.PutUint32(head[1:], uint32(n))
	default:
		head = []byte{0x5b, 0, 0, 0, 0, 0, 0, 0, 0}
		binary.BigEndian.PutUint64(head[1:], n)
	}
	return append(head, content...), true
}

func TestZZReplay(t *testing.T) {
	data := @DATA@
	before := append([]byte(nil), data...)
	want, ok := zzRefCanon(before)
	got, err := deterministicBinaryString(data)
	switch {
	case (err == nil) != ok:
		t.Logf("REPRODUCED: input %x: error %v, but the input %s a well-formed definite-length bstr", before, err, map[bool]string{true: "is", false: "is not"}[ok])
	case ok && !bytes.Equal(got, want):
		t.Logf("REPRODUCED: input %x: result %x, want the shortest-head form %x", before, got, want)
	case !bytes.Equal(data, before):
		t.Logf("REPRODUCED: input %x was modified in place to %x", before, data)
	default:
		t.Logf("not reproduced on input %x", before)
	}
}
`

func replayDetBinStr(e *Engine, o runOpts, ob *Obligation, _ string) *ReplayResult {
	q := e.QueryLite(ob, e.FullPrelude())
	data, ok := modelBytes(o, q, "data", 70000, nil)
	if !ok {
		return nil
	}
	src := strings.Replace(detBinStrTest, "@DATA@", goBytes(data), 1)
	return finishReplay(o, "TestZZReplay", src, fmt.Sprintf("data = %x", data))
}

// ---- decodeECDSASignature ----

const decodeECDSATest = `package cose

import (
	"crypto/elliptic"
	"math/big"
	"testing"
)

func TestZZReplay(t *testing.T) {
	sig := @SIG@
	for _, c := range []elliptic.Curve{elliptic.P256(), elliptic.P384(), elliptic.P521()} {
		n := (c.Params().N.BitLen() + 7) / 8
		r, s, err := decodeECDSASignature(c, sig)
		wantOK := len(sig) == 2*n
		if (err == nil) != wantOK {
			t.Logf("REPRODUCED: %s, signature of %d bytes (2n = %d): err = %v", c.Params().Name, len(sig), 2*n, err)
			return
		}
		if wantOK && (r.Cmp(new(big.Int).SetBytes(sig[:n])) != 0 || s.Cmp(new(big.Int).SetBytes(sig[n:])) != 0) {
			t.Logf("REPRODUCED: %s: r, s are not the two big-endian halves of %x", c.Params().Name, sig)
			return
		}
	}
	t.Logf("not reproduced on a %d-byte signature", len(sig))
}
`

func replayDecodeECDSA(e *Engine, o runOpts, ob *Obligation, _ string) *ReplayResult {
	q := e.QueryLite(ob, e.FullPrelude())
	var extra []string
	if c := paramSymbol(q, "curve", "Any"); c != "" && strings.Contains(q, "curve_p256") {
		extra = append(extra, fmt.Sprintf("(or (= %s curve_p256) (= %s curve_p384) (= %s curve_p521))", c, c, c))
	}
	sig, ok := modelBytes(o, q, "sig", 4096, extra)
	if !ok {
		return nil
	}
	src := strings.Replace(decodeECDSATest, "@SIG@", goBytes(sig), 1)
	return finishReplay(o, "TestZZReplay", src, fmt.Sprintf("sig = %x (tried with P-256, P-384, P-521)", sig))
}

// ---- normalizeLabel ----

const normalizeLabelTest = `package cose

import "testing"

func TestZZReplay(t *testing.T) {
	var label any = @LABEL@
	got, ok := normalizeLabel(label)
	wantOK := @WANTOK@
	if ok != wantOK {
		t.Logf("REPRODUCED: normalizeLabel(%T(%v)) ok = %v, want %v", label, label, ok, wantOK)
		return
	}
	if ok {
		if g, isInt := got.(int64); !isInt || g != int64(@WANTVAL@) {
			t.Logf("REPRODUCED: normalizeLabel(%T(%v)) = %T(%v), want int64(%d)", label, label, got, got, int64(@WANTVAL@))
			return
		}
	}
	t.Logf("not reproduced on %T(%v)", label, label)
}
`

var anyIntCon = regexp.MustCompile(`^\(A_(int|int8|int16|int32|int64|uint|uint8|uint16|uint32|uint64) (\(- \d+\)|\d+)\)$`)

func replayNormalizeLabel(e *Engine, o runOpts, ob *Obligation, _ string) *ReplayResult {
	q := e.QueryLite(ob, e.FullPrelude())
	p := paramSymbol(q, "label", "Any")
	if p == "" {
		return nil
	}
	v, ok := evalTerms(o, q, nil, []string{p})
	if !ok {
		return nil
	}
	m := anyIntCon.FindStringSubmatch(strings.Join(strings.Fields(v[0]), " "))
	if m == nil {
		return nil
	}
	val := strings.NewReplacer("(", "", ")", "", " ", "").Replace(m[2])
	lit := fmt.Sprintf("%s(%s)", m[1], val)
	wantOK := "true"
	if strings.HasPrefix(m[1], "uint") && len(val) >= 19 {
		if u, err := strconv.ParseUint(val, 10, 64); err != nil || u > 1<<63-1 {
			wantOK = "false"
		}
	}
	wantVal := val
	if wantOK == "false" {
		wantVal = "0"
	}
	src := strings.NewReplacer("@LABEL@", lit, "@WANTOK@", wantOK, "@WANTVAL@", wantVal).Replace(normalizeLabelTest)
	return finishReplay(o, "TestZZReplay", src, "label = "+lit)
}
