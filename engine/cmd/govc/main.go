package main

import (
	"bytes"
	"crypto/sha256"
	"flag"
	"fmt"
	"os"
	"path/filepath"
	"sort"
	"strings"
	"sync"
	"time"

	"golang.org/x/tools/go/ssa"
)

func (e *Engine) addLoadErr(s string) { e.loadErrs = append(e.loadErrs, s) }

type runOpts struct {
	repo     string
	verifDir string
	prop     string
	tier     string
	fn       string
	dump     bool
	timeout  time.Duration
	jobs     int
	noCache  bool
	panics   bool
	verbose  bool
	noFilter bool
	outDir   string
	only     string
}

func main() {
	if len(os.Args) < 2 {
		fmt.Fprintln(os.Stderr, "usage: govc check|fn|list|replay ...")
		os.Exit(2)
	}
	cmd := os.Args[1]
	fs := flag.NewFlagSet(cmd, flag.ExitOnError)
	var o runOpts
	fs.StringVar(&o.repo, "repo", "/repo", "repository directory")
	fs.StringVar(&o.verifDir, "verif", "", "verification directory (default: directory containing bin/)")
	fs.StringVar(&o.prop, "property", "", "property id")
	fs.StringVar(&o.tier, "tier", "", "quick or thorough")
	fs.StringVar(&o.fn, "fn", "", "function name")
	fs.BoolVar(&o.dump, "dump", false, "dump queries of failing obligations")
	fs.DurationVar(&o.timeout, "timeout", 0, "per-query timeout")
	fs.IntVar(&o.jobs, "j", 14, "parallel queries")
	fs.BoolVar(&o.noCache, "no-cache", false, "ignore the result cache")
	fs.BoolVar(&o.panics, "panics", false, "generate panic-freedom obligations")
	fs.BoolVar(&o.verbose, "v", false, "verbose")
	fs.StringVar(&o.outDir, "out", "", "directory for evidence/ and replays/ (default: the verification directory)")
	fs.StringVar(&o.only, "only", "", "check: discharge only the obligations of these functions (comma separated; used by the must-fail corpus, which knows which bodies a change touched)")
	fs.BoolVar(&o.noFilter, "no-filter", false, "do not restrict the prelude to the axioms relevant to each query")
	fs.Parse(os.Args[2:])
	if o.verifDir == "" {
		exe, _ := os.Executable()
		o.verifDir = filepath.Dir(filepath.Dir(exe))
		if _, err := os.Stat(filepath.Join(o.verifDir, "properties.jsonl")); err != nil {
			o.verifDir = "/verif"
		}
	}
	if o.outDir == "" {
		o.outDir = o.verifDir
	}
	if o.tier == "" {
		o.tier = os.Getenv("VERIF_TIER")
		if o.tier == "" {
			o.tier = "quick"
		}
	}
	if o.timeout == 0 {
		if o.tier == "thorough" {
			o.timeout = 120 * time.Second
		} else {
			o.timeout = 30 * time.Second
		}
	}
	switch cmd {
	case "check":
		os.Exit(cmdCheck(o))
	case "fn":
		os.Exit(cmdFn(o))
	case "list":
		os.Exit(cmdList(o))
	case "hashes":
		os.Exit(cmdHashes(o))
	case "replay":
		os.Exit(cmdReplay(o, fs.Args()))
	case "ssa":
		e, err := load(o)
		if err != nil {
			fmt.Fprintln(os.Stderr, "load:", err)
			os.Exit(2)
		}
		fn := e.funcs[o.fn]
		if fn == nil {
			fmt.Fprintln(os.Stderr, "no such function")
			os.Exit(2)
		}
		for _, b := range fn.Blocks {
			fmt.Printf("block %d (%s) preds=%v succs=%v\n", b.Index, b.Comment, blockIdx(b.Preds), blockIdx(b.Succs))
			for _, ins := range b.Instrs {
				name := ""
				if v, ok := ins.(ssa.Value); ok {
					name = v.Name() + " = "
				}
				fmt.Printf("\t%s%s\t; %s\n", name, ins.String(), e.posOf(ins.Pos()))
			}
		}
		os.Exit(0)
	default:
		fmt.Fprintln(os.Stderr, "unknown command", cmd)
		os.Exit(2)
	}
}

func load(o runOpts) (*Engine, error) {
	spec := filepath.Join(o.repo, "contracts_verif.go")
	var paths []string
	if _, err := os.Stat(spec); err == nil {
		paths = append(paths, spec)
	}
	// assumed contracts of external functions
	exts, _ := filepath.Glob(filepath.Join(o.verifDir, "extern", "*.spec"))
	sort.Strings(exts)
	paths = append(paths, exts...)
	e, err := LoadEngine(o.repo, paths)
	if err != nil {
		return nil, err
	}
	theEngine = e
	e.noFilter = o.noFilter
	e.prop = o.prop
	kf, err := LoadKnownFindings(filepath.Join(o.verifDir, "known_findings.json"))
	if err != nil {
		return nil, err
	}
	e.kf = kf
	return e, nil
}

func cmdList(o runOpts) int {
	e, err := load(o)
	if err != nil {
		fmt.Fprintln(os.Stderr, "load:", err)
		return 2
	}
	for _, n := range e.sortedFuncNames() {
		c := e.specs.Contracts[n]
		mark := " "
		if c != nil {
			mark = "C"
		}
		fmt.Printf("%s %s (%d blocks)\n", mark, n, len(e.funcs[n].Blocks))
	}
	return 0
}

type checkedObl struct {
	O *Obligation
	R SolverResult
}

// dischargeAll runs the solver on every obligation of the units.
func dischargeAll(e *Engine, units []*Unit, o runOpts, pool *SolverPool) []*Obligation {
	prelude := e.FullPrelude()
	var all []*Obligation
	for _, u := range units {
		all = append(all, u.obls...)
	}
	sem := make(chan struct{}, o.jobs)
	var wg sync.WaitGroup
	for _, ob := range all {
		if ob.Vacuity && ob.PC.S == "false" {
			ob.Status = "unsat"
			ob.Solver = "trivial"
			continue
		}
		if ob.Goal.S == "true" || ob.PC.S == "false" {
			ob.Status = "unsat"
			ob.Solver = "trivial"
			ob.Trivial = true
			continue
		}
		wg.Add(1)
		go func(ob *Obligation) {
			defer wg.Done()
			sem <- struct{}{}
			defer func() { <-sem }()
			// first attempt: quantifier-free unit context (sound: fewer assumptions), z3 5.1 only, short timeout
			if !ob.Vacuity {
				ql := e.QueryLite(ob, prelude)
				r0 := pool.SolveOne(ql, 4*time.Second)
				if r0.Status == "unsat" {
					ob.Status = "unsat"
					ob.Solver = r0.Solver + "/lite"
					ob.Time = r0.Time
					return
				}
			}
			// second attempt for obligations at a join of a few paths: one query per incoming path
			if !ob.Vacuity && len(ob.Parts) > 1 && o.tier != "thorough" {
				all := true
				tt := 0.0
				for _, pc := range ob.Parts {
					ob2 := *ob
					ob2.PC = And(ob.PC, pc)
					r1 := pool.SolveOne(e.Query(&ob2, prelude), 6*time.Second)
					tt += r1.Time
					if r1.Status != "unsat" {
						all = false
						break
					}
				}
				if all {
					ob.Status = "unsat"
					ob.Solver = "z3-new/split"
					ob.Time = tt
					return
				}
			}
			q := e.Query(ob, prelude)
			to := o.timeout
			if ob.Vacuity {
				// a contradiction, if any, is normally found at once; do not wait for the full timeout
				to = 3 * time.Second
				if o.tier == "thorough" {
					to = 15 * time.Second
				}
			}
			r := pool.Solve(q, to, o.tier == "thorough" && !ob.Vacuity, false)
			ob.Status = r.Status
			ob.Solver = r.Solver
			ob.Time = r.Time
			ob.Model = r.Output
		}(ob)
	}
	wg.Wait()
	// rescue round: an obligation that was not discharged only because a solver ran out of wall-clock time (status
	// timeout; `unknown` from every solver means they gave up, and more time does not help) (a loaded
	// machine, many checks in parallel) gets one more attempt with a third of the parallelism and three times the
	// budget, per incoming path where there are several. Sound: the same queries, more time.
	var again []*Obligation
	for _, ob := range all {
		if !ob.Vacuity && ob.Status == "timeout" && !ob.Trivial {
			again = append(again, ob)
		}
	}
	if len(again) > 0 && len(again) <= 200 {
		j := o.jobs / 3
		if j < 1 {
			j = 1
		}
		sem2 := make(chan struct{}, j)
		for _, ob := range again {
			wg.Add(1)
			go func(ob *Obligation) {
				defer wg.Done()
				sem2 <- struct{}{}
				defer func() { <-sem2 }()
				if len(ob.Parts) > 1 {
					ok := true
					tt := 0.0
					for _, pc := range ob.Parts {
						ob2 := *ob
						ob2.PC = And(ob.PC, pc)
						r1 := pool.Solve(e.Query(&ob2, prelude), 3*o.timeout, false, false)
						tt += r1.Time
						if r1.Status != "unsat" {
							ok = false
							break
						}
					}
					if ok {
						ob.Status, ob.Solver, ob.Time = "unsat", "split/rescue", tt
						return
					}
				}
				r := pool.Solve(e.Query(ob, prelude), 3*o.timeout, false, false)
				if r.Status == "unsat" {
					ob.Status, ob.Solver, ob.Time = "unsat", r.Solver+"/rescue", r.Time
				}
			}(ob)
		}
		wg.Wait()
	}
	return all
}

func cmdFn(o runOpts) int {
	e, err := load(o)
	if err != nil {
		fmt.Fprintln(os.Stderr, "load:", err)
		return 2
	}
	var fns []*ssa.Function
	if o.fn == "all" {
		for _, n := range e.sortedFuncNames() {
			fns = append(fns, e.funcs[n])
		}
	} else {
		for _, n := range strings.Split(o.fn, ",") {
			fn, ok := e.funcs[n]
			if !ok {
				fmt.Fprintln(os.Stderr, "no such function:", n)
				return 2
			}
			fns = append(fns, fn)
		}
	}
	var units []*Unit
	rc := 0
	for _, fn := range fns {
		u, err := e.VerifyFunction(fn, o.panics)
		if err != nil {
			fmt.Printf("ENGINE-ERROR %v\n", err)
			rc = 2
			continue
		}
		for _, m := range u.errs {
			fmt.Printf("SPEC-ERROR %s\n", m)
			rc = 2
		}
		units = append(units, u)
	}
	for _, m := range e.loadErrs {
		fmt.Printf("SPEC-ERROR %s\n", m)
		rc = 2
	}
	pool := NewSolverPool(filepath.Join(o.verifDir, ".cache"), filepath.Join(o.verifDir, ".cache", "work"), !o.noCache)
	t0 := time.Now()
	all := dischargeAll(e, units, o, pool)
	nOK := 0
	for _, ob := range all {
		if ob.Vacuity {
			nOK++
			continue
		}
		if ob.Status == "unsat" {
			nOK++
			if o.verbose {
				fmt.Printf("ok   %-70s %s %.2fs\n", ob.Name, ob.Solver, ob.Time)
				if o.dump && !ob.Trivial {
					q := e.Query(ob, e.FullPrelude())
					p := filepath.Join(os.TempDir(), "govc_ok_"+mangle(ob.Name)+".smt2")
					os.WriteFile(p, []byte(q), 0o644)
				}
			}
			continue
		}
		fmt.Printf("FAIL %-70s %s (%s) %.2fs %s\n", ob.Name, ob.Status, ob.Solver, ob.Time, ob.Pos)
		if o.dump {
			q := e.Query(ob, e.FullPrelude())
			p := filepath.Join(os.TempDir(), "govc_"+mangle(ob.Name)+".smt2")
			os.WriteFile(p, []byte(q), 0o644)
			fmt.Printf("     query: %s\n", p)
		}
		if rc == 0 {
			rc = 1
		}
	}
	for _, m := range vacuityReport(all) {
		fmt.Println(m)
		rc = 2
	}
	var ws []string
	for w := range e.warnings {
		ws = append(ws, w)
	}
	sort.Strings(ws)
	for _, w := range ws {
		fmt.Println("warning:", w)
	}
	sort.Slice(all, func(i, j int) bool { return all[i].Time > all[j].Time })
	for i := 0; i < 5 && i < len(all); i++ {
		if all[i].Time > 3 {
			fmt.Printf("slow %-70s %s %.1fs\n", all[i].Name, all[i].Solver, all[i].Time)
		}
	}
	fmt.Printf("%d/%d obligations discharged in %.1fs (solver wins %v, cached %d)\n", nOK, len(all), time.Since(t0).Seconds(), pool.wins, pool.cached)
	return rc
}

// ---- property checks ----

type Evidence struct {
	PropertyID  string         `json:"property_id"`
	Tier        string         `json:"tier"`
	Seed        int            `json:"seed"`
	Level       string         `json:"level"`
	Coverage    map[string]any `json:"coverage"`
	Assumptions []string       `json:"assumptions"`
	WallS       float64        `json:"wall_s"`
	Violations  int            `json:"violations"`
}

func cmdCheck(o runOpts) int {
	t0 := time.Now()
	if o.prop == "" {
		fmt.Fprintln(os.Stderr, "check: --property required")
		return 2
	}
	e, err := load(o)
	if err != nil {
		fmt.Fprintln(os.Stderr, "load:", err)
		return 2
	}
	res := runProperty(e, o)
	res.wall = time.Since(t0).Seconds()
	return reportProperty(e, o, res)
}

func blockIdx(bs []*ssa.BasicBlock) []int {
	var out []int
	for _, b := range bs {
		out = append(out, b.Index)
	}
	return out
}

// vacuityReport: a function none of whose return sites is reachable under the accumulated assumptions has a
// contradictory context (or contract); individual unreachable sites are dead error handling and are fine.
func vacuityReport(all []*Obligation) []string {
	type st struct{ total, dead int }
	per := map[string]*st{}
	var order []string
	for _, ob := range all {
		if !ob.Vacuity {
			continue
		}
		s := per[ob.Func]
		if s == nil {
			s = &st{}
			per[ob.Func] = s
			order = append(order, ob.Func)
		}
		s.total++
		if ob.Status == "unsat" {
			s.dead++
		}
	}
	var out []string
	for _, f := range order {
		if s := per[f]; s.total > 0 && s.dead == s.total {
			out = append(out, fmt.Sprintf("MACHINERY-ERROR contradictory assumptions: no return site of %s is reachable (all %d proofs there would be vacuous)", f, s.total))
		}
	}
	return out
}

// cmdHashes prints, per function of the package, a hash of its SSA text together with the SSA text of every
// function it would inline (in-package callees without a contract, closures). Two trees that agree on a function's
// hash generate the same obligations for it (the contracts file being equal).
func cmdHashes(o runOpts) int {
	e, err := load(o)
	if err != nil {
		fmt.Fprintln(os.Stderr, "load:", err)
		return 2
	}
	var text func(fn *ssa.Function, seen map[*ssa.Function]bool, sb *strings.Builder)
	text = func(fn *ssa.Function, seen map[*ssa.Function]bool, sb *strings.Builder) {
		if seen[fn] {
			return
		}
		seen[fn] = true
		var b bytes.Buffer
		fn.WriteTo(&b)
		for _, ln := range strings.Split(b.String(), "\n") {
			if strings.HasPrefix(ln, "# Location:") || strings.HasPrefix(strings.TrimSpace(ln), ";") {
				continue // source positions (debug references) move when lines are inserted above
			}
			sb.WriteString(ln + "\n")
		}
		for _, a := range fn.AnonFuncs {
			text(a, seen, sb)
		}
		for _, blk := range fn.Blocks {
			for _, ins := range blk.Instrs {
				c, ok := ins.(ssa.CallInstruction)
				if !ok {
					continue
				}
				cal := c.Common().StaticCallee()
				if cal == nil || cal.Pkg != e.pkg {
					continue
				}
				if e.specs.Contracts[fnName(cal)] != nil {
					continue
				}
				text(cal, seen, sb)
			}
		}
	}
	for _, n := range e.sortedFuncNames() {
		var sb strings.Builder
		text(e.funcs[n], map[*ssa.Function]bool{}, &sb)
		h := sha256.Sum256([]byte(sb.String()))
		fmt.Printf("%x %s\n", h[:8], n)
	}
	return 0
}
