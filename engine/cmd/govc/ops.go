package main

import (
	"fmt"
	"go/token"
	"go/types"
	"strings"

	"golang.org/x/tools/go/ssa"
)

func isInt(t types.Type) bool {
	b, ok := t.Underlying().(*types.Basic)
	return ok && b.Info()&types.IsInteger != 0
}
func isString(t types.Type) bool {
	b, ok := t.Underlying().(*types.Basic)
	return ok && b.Info()&types.IsString != 0
}
func isBool(t types.Type) bool {
	b, ok := t.Underlying().(*types.Basic)
	return ok && b.Info()&types.IsBoolean != 0
}

func constInt(v ssa.Value) (int64, bool) {
	c, ok := v.(*ssa.Const)
	if !ok || c.Value == nil {
		return 0, false
	}
	if !isInt(c.Type()) {
		return 0, false
	}
	return c.Int64(), true
}

// contiguousMask: n > 0 has its set bits exactly at positions lo..hi-1 (hi <= 62).
func contiguousMask(n int64) (lo, hi int, ok bool) {
	if n <= 0 {
		return 0, 0, false
	}
	for n&1 == 0 {
		n >>= 1
		lo++
	}
	k, ok := isPow2Minus1(n)
	if !ok {
		if n == 1 {
			return lo, lo + 1, lo+1 <= 62
		}
		return 0, 0, false
	}
	return lo, lo + k, lo+k <= 62
}

func isPow2Minus1(n int64) (int, bool) {
	for k := 1; k < 63; k++ {
		if n == (int64(1)<<uint(k))-1 {
			return k, true
		}
	}
	return 0, false
}

func (u *Unit) binop(fr *Frame, st *State, x *ssa.BinOp) Term {
	a := u.operand(fr, x.X).T
	b := u.operand(fr, x.Y).T
	xt := x.X.Type()
	switch x.Op {
	case token.EQL, token.NEQ:
		var eq Term
		if a.Sort != b.Sort {
			panic(fmt.Sprintf("binop == sort mismatch %s vs %s in %s", a.Sort, b.Sort, x))
		}
		switch xt.Underlying().(type) {
		case *types.Slice:
			// only comparison with nil is legal
			if b.S == NilSlice.S {
				eq = Eq(SArr(a), IntLit(0))
			} else if a.S == NilSlice.S {
				eq = Eq(SArr(b), IntLit(0))
			} else {
				eq = Eq(a, b)
			}
		default:
			eq = Eq(a, b)
		}
		if x.Op == token.NEQ {
			return Not(eq)
		}
		return eq
	}
	if isString(xt) {
		switch x.Op {
		case token.ADD:
			return App(SStr, "str_cat", a, b)
		case token.LSS, token.LEQ, token.GTR, token.GEQ:
			return u.fresh("strcmp", SBool)
		}
	}
	if isBool(xt) {
		switch x.Op {
		case token.AND:
			return And(a, b)
		case token.OR:
			return Or(a, b)
		}
	}
	if !isInt(xt) {
		if b, ok := xt.Underlying().(*types.Basic); ok && b.Info()&types.IsFloat != 0 {
			return u.fresh("float", u.eng.reg.SortOf(x.Type()))
		}
		panic("binop on unsupported type: " + x.String())
	}
	switch x.Op {
	case token.LSS:
		return Lt(a, b)
	case token.LEQ:
		return Le(a, b)
	case token.GTR:
		return Gt(a, b)
	case token.GEQ:
		return Ge(a, b)
	case token.ADD:
		return u.wrapIfNeeded(Add(a, b), x.Type())
	case token.SUB:
		return u.wrapIfNeeded(Sub(a, b), x.Type())
	case token.MUL:
		return u.wrapIfNeeded(Mul(a, b), x.Type())
	case token.QUO:
		u.panicObl(st, fr, x, "divzero", Neq(b, IntLit(0)))
		u.assume(st.pc, Neq(b, IntLit(0)))
		return u.wrapIfNeeded(App(SInt, "go_div", a, b), x.Type())
	case token.REM:
		u.panicObl(st, fr, x, "divzero", Neq(b, IntLit(0)))
		u.assume(st.pc, Neq(b, IntLit(0)))
		return App(SInt, "go_rem", a, b)
	case token.SHR:
		if n, ok := constInt(x.Y); ok && n >= 0 && n < 64 {
			// arithmetic shift right = floor division by 2^n (for both signs)
			return App(SInt, "div", a, BigLit(pow2(int(n))))
		}
	case token.SHL:
		if n, ok := constInt(x.Y); ok && n >= 0 && n < 64 {
			return u.wrapIfNeeded(Mul(a, BigLit(pow2(int(n)))), x.Type())
		}
	case token.AND:
		if n, ok := constInt(x.Y); ok {
			if k, ok := isPow2Minus1(n); ok {
				return App(SInt, "mod", a, BigLit(pow2(k)))
			}
			if lo, hi, ok := contiguousMask(n); ok {
				// bits lo..hi-1 of the two's complement representation, left in place
				return Mul(App(SInt, "div", App(SInt, "mod", a, BigLit(pow2(hi))), BigLit(pow2(lo))), BigLit(pow2(lo)))
			}
		}
		if n, ok := constInt(x.X); ok {
			if k, ok := isPow2Minus1(n); ok {
				return App(SInt, "mod", b, BigLit(pow2(k)))
			}
			if lo, hi, ok := contiguousMask(n); ok {
				return Mul(App(SInt, "div", App(SInt, "mod", b, BigLit(pow2(hi))), BigLit(pow2(lo))), BigLit(pow2(lo)))
			}
		}
	}
	// unmodelled bit operation: uninterpreted result within the type's range
	r := u.fresh("bitop", SInt)
	u.assume(True, InRange(r, x.Type()))
	u.eng.warn("unmodelled integer operation (result left arbitrary): " + x.String() + " in " + fnName(fr.fn))
	return r
}

func (u *Unit) wrapIfNeeded(t Term, ty types.Type) Term {
	return App(SInt, wrapFn(ty), t)
}

func wrapFn(ty types.Type) string {
	bits, signed := intBits(ty)
	if signed {
		return fmt.Sprintf("wrap_s%d", bits)
	}
	return fmt.Sprintf("wrap_u%d", bits)
}

func (u *Unit) convert(fr *Frame, st *State, x *ssa.Convert) Term {
	v := u.operand(fr, x.X).T
	from, to := x.X.Type(), x.Type()
	switch {
	case isInt(from) && isInt(to):
		flo, fhi, _ := intRange(from)
		tlo, thi, _ := intRange(to)
		if cmpDec(tlo, flo) <= 0 && cmpDec(fhi, thi) <= 0 {
			return v // widening
		}
		return App(SInt, wrapFn(to), v)
	case isString(to):
		if sl, ok := from.Underlying().(*types.Slice); ok && isInt(sl.Elem()) {
			// string([]byte)
			return App(SStr, "str_of_bytes", u.bytesOf(st, v))
		}
		if isInt(from) {
			return u.fresh("strconv", SStr)
		}
	case isString(from):
		if sl, ok := to.Underlying().(*types.Slice); ok && isInt(sl.Elem()) {
			// []byte(string): fresh slice holding the string's bytes
			id := u.newObj(st)
			ln := App(SInt, "str_len", v)
			c := ecomp(SInt)
			arr := u.fresh("strbytes", ArraySort(SInt, SInt))
			q := Term{"qi!", SInt}
			u.assume(st.pc, Forall([]Term{q}, Implies(And(Le(IntLit(0), q), Lt(q, ln)), Eq(Select(arr, q), App(SInt, "str_at", v, q))), []Term{Select(arr, q)}))
			u.setComp(st, c, Store(u.comp(st, c), id, arr))
			return MkSlice(id, IntLit(0), ln, ln)
		}
	}
	if fb, ok := from.Underlying().(*types.Basic); ok && fb.Info()&types.IsFloat != 0 {
		return u.fresh("conv", u.eng.reg.SortOf(to))
	}
	if tb, ok := to.Underlying().(*types.Basic); ok && tb.Info()&types.IsFloat != 0 {
		return u.fresh("conv", u.eng.reg.SortOf(to))
	}
	if u.eng.reg.SortOf(from) == u.eng.reg.SortOf(to) {
		return v
	}
	panic("convert: unsupported " + x.String())
}

// cmpDec compares two decimal integer strings.
func cmpDec(a, b string) int {
	na, nb := a[0] == '-', b[0] == '-'
	if na && !nb {
		return -1
	}
	if !na && nb {
		return 1
	}
	if na {
		return -cmpDec(a[1:], b[1:])
	}
	if len(a) != len(b) {
		if len(a) < len(b) {
			return -1
		}
		return 1
	}
	if a < b {
		return -1
	}
	if a > b {
		return 1
	}
	return 0
}

// bytesOf returns the Bytes view of a byte slice in state st.
func (u *Unit) bytesOf(st *State, s Term) Term {
	return u.bytesOfBound(st, s, nil)
}

// bytesOfBound: as bytesOf, for a slice term that mentions the quantified variables `bound` of a specification.
func (u *Unit) bytesOfBound(st *State, s Term, bound []Term) Term {
	E := u.comp(st, ecomp(SInt))
	v := App(SBytes, "view", Select(E, SArr(s)), SOff(s), SLen(s))
	// the elements of a []byte are bytes (type invariant of the slice's elements)
	q := Term{"qb!", SInt}
	b := App(SInt, "bat", v, q)
	vars := []Term{q}
	for _, bv := range bound {
		if strings.Contains(s.S, bv.S) {
			vars = append(vars, bv)
		}
	}
	u.assume(True, Forall(vars, Implies(And(Le(IntLit(0), q), Lt(q, SLen(s))), And(Le(IntLit(0), b), Le(b, IntLit(255)))), []Term{b}))
	return v
}
