package main

import (
	"fmt"
	"strings"
)

// Sort is the SMT-LIB text of a sort.
type Sort string

const (
	SInt   Sort = "Int"
	SBool  Sort = "Bool"
	SStr   Sort = "Str"
	SAddr  Sort = "Addr"
	SSlice Sort = "Slice"
	SAny   Sort = "Any"
	SBytes Sort = "Bytes"
	SCV    Sort = "CV"
	SCVL   Sort = "CVList"
	SUnit  Sort = "Unit"
)

func ArraySort(k, v Sort) Sort { return Sort(fmt.Sprintf("(Array %s %s)", k, v)) }

// Term is an SMT-LIB term with its sort.
type Term struct {
	S    string
	Sort Sort
}

func (t Term) String() string { return t.S }
func (t Term) Nil() bool      { return t.S == "" }

var (
	True  = Term{"true", SBool}
	False = Term{"false", SBool}
)

func IntLit(n int64) Term {
	if n < 0 {
		return Term{fmt.Sprintf("(- %d)", -n), SInt}
	}
	return Term{fmt.Sprintf("%d", n), SInt}
}

func BigLit(s string) Term { // decimal string, maybe negative
	if strings.HasPrefix(s, "-") {
		return Term{"(- " + s[1:] + ")", SInt}
	}
	return Term{s, SInt}
}

func BoolLit(b bool) Term {
	if b {
		return True
	}
	return False
}

func App(sort Sort, f string, args ...Term) Term {
	if len(args) == 0 {
		return Term{f, sort}
	}
	var sb strings.Builder
	sb.WriteByte('(')
	sb.WriteString(f)
	for _, a := range args {
		sb.WriteByte(' ')
		if a.S == "" {
			panic("empty term as argument of " + f)
		}
		sb.WriteString(a.S)
	}
	sb.WriteByte(')')
	return Term{sb.String(), sort}
}

func Not(a Term) Term {
	switch a.S {
	case "true":
		return False
	case "false":
		return True
	}
	if strings.HasPrefix(a.S, "(not ") {
		return Term{a.S[5 : len(a.S)-1], SBool}
	}
	return App(SBool, "not", a)
}

func And(as ...Term) Term {
	var xs []Term
	for _, a := range as {
		if a.S == "true" {
			continue
		}
		if a.S == "false" {
			return False
		}
		xs = append(xs, a)
	}
	switch len(xs) {
	case 0:
		return True
	case 1:
		return xs[0]
	}
	return App(SBool, "and", xs...)
}

func Or(as ...Term) Term {
	var xs []Term
	for _, a := range as {
		if a.S == "false" {
			continue
		}
		if a.S == "true" {
			return True
		}
		xs = append(xs, a)
	}
	switch len(xs) {
	case 0:
		return False
	case 1:
		return xs[0]
	}
	return App(SBool, "or", xs...)
}

func Implies(a, b Term) Term {
	if a.S == "true" {
		return b
	}
	if a.S == "false" || b.S == "true" {
		return True
	}
	return App(SBool, "=>", a, b)
}

func Iff(a, b Term) Term { return App(SBool, "=", a, b) }

func Eq(a, b Term) Term {
	if a.S == b.S {
		return True
	}
	if a.Sort != b.Sort {
		panic(fmt.Sprintf("Eq sort mismatch: %s:%s vs %s:%s", a.S, a.Sort, b.S, b.Sort))
	}
	return App(SBool, "=", a, b)
}

func Neq(a, b Term) Term { return Not(Eq(a, b)) }

func Ite(c, a, b Term) Term {
	if c.S == "true" {
		return a
	}
	if c.S == "false" {
		return b
	}
	if a.S == b.S {
		return a
	}
	if a.Sort != b.Sort {
		panic(fmt.Sprintf("Ite sort mismatch: %s:%s vs %s:%s", a.S, a.Sort, b.S, b.Sort))
	}
	return App(a.Sort, "ite", c, a, b)
}

func Add(a, b Term) Term { return App(SInt, "+", a, b) }
func Sub(a, b Term) Term { return App(SInt, "-", a, b) }
func Mul(a, b Term) Term { return App(SInt, "*", a, b) }
func Lt(a, b Term) Term  { return App(SBool, "<", a, b) }
func Le(a, b Term) Term  { return App(SBool, "<=", a, b) }
func Gt(a, b Term) Term  { return App(SBool, ">", a, b) }
func Ge(a, b Term) Term  { return App(SBool, ">=", a, b) }

func Select(arr, idx Term) Term {
	// arr.Sort is "(Array K V)"; extract V.
	return App(arrayValueSort(arr.Sort), "select", arr, idx)
}

func Store(arr, idx, val Term) Term {
	return App(arr.Sort, "store", arr, idx, val)
}

// arrayValueSort parses "(Array K V)" and returns V.
func arrayValueSort(s Sort) Sort {
	str := string(s)
	if !strings.HasPrefix(str, "(Array ") {
		panic("not an array sort: " + str)
	}
	inner := str[len("(Array ") : len(str)-1]
	// split first sort token
	k := firstSexp(inner)
	v := strings.TrimSpace(inner[len(k):])
	return Sort(v)
}

func arrayKeySort(s Sort) Sort {
	str := string(s)
	inner := str[len("(Array ") : len(str)-1]
	return Sort(firstSexp(inner))
}

func firstSexp(s string) string {
	s = strings.TrimLeft(s, " ")
	if s == "" {
		return ""
	}
	if s[0] != '(' {
		i := strings.IndexByte(s, ' ')
		if i < 0 {
			return s
		}
		return s[:i]
	}
	depth := 0
	for i := 0; i < len(s); i++ {
		switch s[i] {
		case '(':
			depth++
		case ')':
			depth--
			if depth == 0 {
				return s[:i+1]
			}
		}
	}
	return s
}

func Forall(vars []Term, body Term, patterns ...[]Term) Term {
	if len(vars) == 0 {
		return body
	}
	var sb strings.Builder
	sb.WriteString("(forall (")
	for _, v := range vars {
		fmt.Fprintf(&sb, "(%s %s)", v.S, v.Sort)
	}
	sb.WriteString(") ")
	if len(patterns) > 0 {
		sb.WriteString("(! ")
		sb.WriteString(body.S)
		for _, p := range patterns {
			sb.WriteString(" :pattern (")
			for i, t := range p {
				if i > 0 {
					sb.WriteByte(' ')
				}
				sb.WriteString(t.S)
			}
			sb.WriteString(")")
		}
		sb.WriteString(")")
	} else {
		sb.WriteString(body.S)
	}
	sb.WriteString(")")
	return Term{sb.String(), SBool}
}

func Exists(vars []Term, body Term, patterns ...[]Term) Term {
	if len(vars) == 0 {
		return body
	}
	var sb strings.Builder
	sb.WriteString("(exists (")
	for _, v := range vars {
		fmt.Fprintf(&sb, "(%s %s)", v.S, v.Sort)
	}
	sb.WriteString(") ")
	if len(patterns) > 0 {
		sb.WriteString("(! ")
		sb.WriteString(body.S)
		for _, p := range patterns {
			sb.WriteString(" :pattern (")
			for i, t := range p {
				if i > 0 {
					sb.WriteByte(' ')
				}
				sb.WriteString(t.S)
			}
			sb.WriteString(")")
		}
		sb.WriteString(")")
	} else {
		sb.WriteString(body.S)
	}
	sb.WriteString(")")
	return Term{sb.String(), SBool}
}

// sym sanitises a name into an SMT-LIB quoted symbol.
func sym(name string) string {
	r := strings.NewReplacer("|", "!", "\\", "!", " ", "_", "\t", "_", "\n", "_")
	return "|" + r.Replace(name) + "|"
}
