package main

import (
	"bytes"
	"context"
	"crypto/sha256"
	"encoding/hex"
	"fmt"
	"os"
	"os/exec"
	"path/filepath"
	"strings"
	"sync"
	"time"
)

type SolverResult struct {
	Status string // unsat, sat, unknown, timeout, error
	Solver string
	Time   float64
	Output string
}

type solverSpec struct {
	name string
	args func(file string, timeout time.Duration) []string
}

var solvers = []solverSpec{
	{"z3-new", func(f string, t time.Duration) []string {
		return []string{"z3-new", fmt.Sprintf("-T:%d", int(t.Seconds())+1), "smt.mbqi=false", f}
	}},
	{"z3", func(f string, t time.Duration) []string {
		return []string{"z3", fmt.Sprintf("-T:%d", int(t.Seconds())+1), "smt.mbqi=false", f}
	}},
	{"cvc5", func(f string, t time.Duration) []string {
		return []string{"cvc5", fmt.Sprintf("--tlimit=%d", int(t.Milliseconds())), "--lang=smt2", f}
	}},
}

// confirmBudget: thorough tier, time a second solver gets to confirm an unsat answer
const confirmBudget = 8 * time.Second

type SolverPool struct {
	cacheDir string
	workDir  string
	useCache bool
	mu       sync.Mutex
	wins     map[string]int
	totalT   float64
	queries  int
	cached   int
}

func NewSolverPool(cacheDir, workDir string, useCache bool) *SolverPool {
	os.MkdirAll(cacheDir, 0o755)
	workDir = filepath.Join(workDir, fmt.Sprint(os.Getpid())) // concurrent runs must not share query files
	os.MkdirAll(workDir, 0o755)
	return &SolverPool{cacheDir: cacheDir, workDir: workDir, useCache: useCache, wins: map[string]int{}}
}

func runOne(ctx context.Context, sp solverSpec, file string, timeout time.Duration) SolverResult {
	args := sp.args(file, timeout)
	cctx, cancel := context.WithTimeout(ctx, timeout+2*time.Second)
	defer cancel()
	cmd := exec.CommandContext(cctx, args[0], args[1:]...)
	var out bytes.Buffer
	cmd.Stdout = &out
	cmd.Stderr = &out
	t0 := time.Now()
	err := cmd.Run()
	el := time.Since(t0).Seconds()
	first := ""
	for _, ln := range strings.Split(out.String(), "\n") {
		ln = strings.TrimSpace(ln)
		if ln == "" || strings.HasPrefix(ln, "WARNING") {
			continue
		}
		first = ln
		break
	}
	res := SolverResult{Solver: sp.name, Time: el, Output: out.String()}
	switch first {
	case "unsat", "sat", "unknown":
		res.Status = first
	case "timeout":
		res.Status = "timeout"
	default:
		if cctx.Err() != nil {
			res.Status = "timeout"
		} else if strings.Contains(out.String(), "timeout") || strings.Contains(out.String(), "interrupted") {
			res.Status = "timeout"
		} else {
			res.Status = "error"
			_ = err
		}
	}
	return res
}

// Solve races the solvers on a query; the first definite answer (sat/unsat) wins.
// With needTwo, two solvers must independently answer unsat.
func (p *SolverPool) Solve(query string, timeout time.Duration, needTwo bool, wantModel bool) SolverResult {
	h := sha256.Sum256([]byte(query))
	key := hex.EncodeToString(h[:])
	cpath := filepath.Join(p.cacheDir, key)
	if p.useCache && !needTwo {
		if data, err := os.ReadFile(cpath); err == nil {
			parts := strings.SplitN(string(data), "\n", 3)
			if len(parts) >= 2 && parts[0] == "unsat" {
				p.mu.Lock()
				p.cached++
				p.queries++
				p.mu.Unlock()
				return SolverResult{Status: "unsat", Solver: parts[1] + "(cached)"}
			}
		}
	}
	file := filepath.Join(p.workDir, key[:24]+".smt2")
	os.WriteFile(file, []byte(query), 0o644)
	defer os.Remove(file)
	// stage 1 (quick tier): most obligations are decided by z3 5.1 in well under a second; only the others are raced
	if !needTwo {
		pre := 4 * time.Second
		if timeout < pre {
			pre = timeout
		}
		r := runOne(context.Background(), solvers[0], file, pre)
		p.mu.Lock()
		p.totalT += r.Time
		p.mu.Unlock()
		if r.Status == "unsat" || r.Status == "sat" {
			if r.Status == "unsat" && p.useCache {
				os.WriteFile(cpath, []byte("unsat\n"+r.Solver+"\n"), 0o644)
			}
			p.mu.Lock()
			p.queries++
			p.wins[r.Solver]++
			p.mu.Unlock()
			return r
		}
	}
	ctx, cancel := context.WithCancel(context.Background())
	defer cancel()
	ch := make(chan SolverResult, len(solvers))
	for _, sp := range solvers {
		go func(sp solverSpec) { ch <- runOne(ctx, sp, file, timeout) }(sp)
	}
	var best SolverResult
	z3Timeout, anyUnknown := false, false
	unsatBy := []string{}
	var errs []string
	got := 0
	var confirm <-chan time.Time // thorough tier: after the first unsat, how long a second solver gets to confirm it
	for got < len(solvers) {
		var r SolverResult
		select {
		case r = <-ch:
		case <-confirm:
			got = len(solvers) + 1
			continue
		}
		got++
		p.mu.Lock()
		p.totalT += r.Time
		p.mu.Unlock()
		switch r.Status {
		case "unsat":
			unsatBy = append(unsatBy, r.Solver)
			if !needTwo || len(unsatBy) >= 2 {
				best = r
				best.Solver = strings.Join(unsatBy, "+")
				got = len(solvers) + 1
			} else {
				best = r
				if confirm == nil {
					confirm = time.After(confirmBudget)
				}
			}
		case "sat":
			best = r
			got = len(solvers) + 1
		default:
			if r.Status == "error" {
				errs = append(errs, r.Solver+": "+truncate(r.Output, 300))
			}
			if r.Status == "timeout" && strings.HasPrefix(r.Solver, "z3") {
				z3Timeout = true
			}
			if r.Status == "unknown" {
				anyUnknown = true
			}
			if best.Status == "" || best.Status == "error" {
				best = r
			}
		}
	}
	cancel()
	if len(unsatBy) > 0 && best.Status != "sat" && best.Status != "unsat" {
		best.Status = "unsat"
	}
	if best.Status != "unsat" && best.Status != "sat" {
		// summary: "timeout" only when a z3 (the solvers that decide these goals) ran out of time -- then more time may
		// help; "unknown" when they gave up on their own (cvc5 running into its limit next to that says nothing)
		if z3Timeout {
			best.Status = "timeout"
		} else if anyUnknown {
			best.Status = "unknown"
		}
	}
	if needTwo && len(unsatBy) == 1 && best.Status != "sat" {
		// no second solver confirmed within the budget: the obligation counts as discharged by one solver (as in the
		// quick tier); the evidence reports how many obligations two solvers agreed on
		best = SolverResult{Status: "unsat", Solver: unsatBy[0] + "(unconfirmed)", Time: best.Time}
	}
	if best.Status == "unsat" && len(unsatBy) > 0 && p.useCache {
		os.WriteFile(cpath, []byte("unsat\n"+unsatBy[0]+"\n"), 0o644)
	}
	if best.Status != "unsat" && best.Status != "sat" && len(errs) > 0 {
		best.Output += "\nsolver errors: " + strings.Join(errs, " | ")
	}
	p.mu.Lock()
	p.queries++
	if best.Status == "unsat" || best.Status == "sat" {
		p.wins[strings.SplitN(best.Solver, "+", 2)[0]]++
	}
	p.mu.Unlock()
	return best
}

// SolveOne runs only z3 5.1 on a query (no cache, no race); used for the cheap first attempt.
func (p *SolverPool) SolveOne(query string, timeout time.Duration) SolverResult {
	h := sha256.Sum256([]byte(query))
	key := hex.EncodeToString(h[:])
	file := filepath.Join(p.workDir, "l"+key[:24]+".smt2")
	os.WriteFile(file, []byte(query), 0o644)
	defer os.Remove(file)
	r := runOne(context.Background(), solvers[0], file, timeout)
	p.mu.Lock()
	p.totalT += r.Time
	p.queries++
	if r.Status == "unsat" {
		p.wins[r.Solver+"/lite"]++
	}
	p.mu.Unlock()
	return r
}
