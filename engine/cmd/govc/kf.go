package main

import (
	"encoding/json"
	"fmt"
	"os"
)

type KnownFinding struct {
	Property   string `json:"property"`
	Obligation string `json:"obligation"`
	Restrict   string `json:"restrict"`
	What       string `json:"what"`
	Status     string `json:"status"` // open | fixed
	Commit     string `json:"commit,omitempty"`
	Input      string `json:"failing_input,omitempty"`
	restrictExpr *SExpr
}

type KnownFindings struct {
	Findings []*KnownFinding `json:"findings"`
}

func LoadKnownFindings(path string) (*KnownFindings, error) {
	data, err := os.ReadFile(path)
	if err != nil {
		if os.IsNotExist(err) {
			return &KnownFindings{}, nil
		}
		return nil, err
	}
	var kf KnownFindings
	if err := json.Unmarshal(data, &kf); err != nil {
		return nil, err
	}
	for _, f := range kf.Findings {
		if f.Restrict != "" {
			e, err := parseSpecExpr(f.Restrict)
			if err != nil {
				return nil, fmt.Errorf("known finding %s: %v", f.Obligation, err)
			}
			f.restrictExpr = e
		}
	}
	return &kf, nil
}
