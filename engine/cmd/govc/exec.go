package main

import (
	"fmt"
	"go/constant"
	"go/token"
	"go/types"
	"sort"
	"strings"

	"golang.org/x/tools/go/ssa"
)

// Val is an engine-level value of an SSA register.
type Val struct {
	T     Term
	Tuple []*Val
	Elem  *ElemRef // pointer to an element of an element store (from IndexAddr)
	Iter  *IterInfo
	Clo   *Closure
	// for values of array-pointer type produced by Alloc we remember the element type
}

type ElemRef struct {
	Arr  Term // element store id (Int)
	Idx  Term
	Elem types.Type
}

type IterInfo struct {
	Map   Term
	MapT  *types.Map
	Ghost string // ghost component name for the seen set
	Str   bool
}

type Closure struct {
	Fn       *ssa.Function
	Bindings []*Val
}

type Frame struct {
	fn     *ssa.Function
	vals   map[ssa.Value]*Val
	caller *Frame
	depth  int
	u      *Unit
	// contract being verified for this frame (top frame only)
	top      bool
	contract *Contract
	entry    *State // state at function entry (for old())
	params   []*Val
	// deferred closures
	defers []*Val
	// loop bookkeeping
	loopOrd map[*ssa.BasicBlock]int
	loopEntry map[*ssa.BasicBlock]*State
	// panics that a deferred recover() will catch: states at the panicking instruction
	panicStates []*State
	recovering  bool // this frame is a deferred closure running because of a panic: recover() returns non-nil
	// named result allocs etc.
}

type execResult struct {
	st   *State
	vals []*Val // results (merged)
	// the individual live return sites (state and results at each Return instruction)
	rets []retSite
}

type retSite struct {
	st   *State
	vals []*Val
	ord  int // ordinal of the Return instruction in block order
}

func (e *Engine) posOf(p token.Pos) string {
	if !p.IsValid() {
		return ""
	}
	pp := e.prog.Fset.Position(p)
	f := pp.Filename
	if i := strings.LastIndex(f, "/"); i >= 0 {
		f = f[i+1:]
	}
	return fmt.Sprintf("%s:%d", f, pp.Line)
}

func fnName(fn *ssa.Function) string {
	if fn.Pkg != nil {
		return fn.RelString(fn.Pkg.Pkg)
	}
	return fn.String()
}

// ---- CFG helpers ----

type cfgInfo struct {
	order     []*ssa.BasicBlock // reverse post-order ignoring back edges
	backEdge  map[[2]int]bool
	loopHead  map[int]bool
	loopBody  map[int]map[int]bool // header index -> set of block indices in the natural loop
	headOrder []int
}

func analyzeCFG(fn *ssa.Function) *cfgInfo {
	ci := &cfgInfo{backEdge: map[[2]int]bool{}, loopHead: map[int]bool{}, loopBody: map[int]map[int]bool{}}
	// back edges: u->h where h dominates u
	for _, b := range fn.Blocks {
		for _, s := range b.Succs {
			if s.Dominates(b) {
				ci.backEdge[[2]int{b.Index, s.Index}] = true
				ci.loopHead[s.Index] = true
			}
		}
	}
	// natural loops
	for e := range ci.backEdge {
		u, h := e[0], e[1]
		body := ci.loopBody[h]
		if body == nil {
			body = map[int]bool{h: true}
			ci.loopBody[h] = body
		}
		stack := []int{u}
		for len(stack) > 0 {
			x := stack[len(stack)-1]
			stack = stack[:len(stack)-1]
			if body[x] {
				continue
			}
			body[x] = true
			for _, p := range fn.Blocks[x].Preds {
				stack = append(stack, p.Index)
			}
		}
	}
	// RPO ignoring back edges
	visited := map[int]bool{}
	var post []*ssa.BasicBlock
	var dfs func(b *ssa.BasicBlock)
	dfs = func(b *ssa.BasicBlock) {
		visited[b.Index] = true
		for _, s := range b.Succs {
			if ci.backEdge[[2]int{b.Index, s.Index}] || visited[s.Index] {
				continue
			}
			dfs(s)
		}
		post = append(post, b)
	}
	if len(fn.Blocks) > 0 {
		dfs(fn.Blocks[0])
	}
	for i := len(post) - 1; i >= 0; i-- {
		ci.order = append(ci.order, post[i])
	}
	for h := range ci.loopHead {
		ci.headOrder = append(ci.headOrder, h)
	}
	sort.Ints(ci.headOrder)
	return ci
}

// ---- function execution ----

// execFunction symbolically executes fn from state st with the given
// arguments and returns the merged exit state and result values.
func (u *Unit) execFunction(fr *Frame, st *State) *execResult {
	fn := fr.fn
	if len(fn.Blocks) == 0 {
		panic("execFunction: no body for " + fn.String())
	}
	ci := u.eng.cfg(fn)
	for i, p := range fn.Params {
		fr.vals[p] = fr.params[i]
	}
	// loop ordinals: by source order of header block index
	fr.loopOrd = map[*ssa.BasicBlock]int{}
	for i, h := range ci.headOrder {
		fr.loopOrd[fn.Blocks[h]] = i + 1
	}

	exitStates := map[int]*State{}            // block index -> state at end of block
	edgeStates := map[[2]int]*State{}         // edge -> state along edge
	var retStates []*State
	var retVals [][]*Val
	var retOrds []int
	retOrdOf := map[*ssa.Return]int{}
	for _, bb := range fn.Blocks {
		for _, ins := range bb.Instrs {
			if r, ok := ins.(*ssa.Return); ok {
				retOrdOf[r] = len(retOrdOf) + 1
			}
		}
	}
	blockEntry := map[int]*State{}

	for _, b := range ci.order {
		var in *State
		var inEdges [][2]int
		if b.Index == 0 {
			in = st
		} else {
			var ss []*State
			for _, p := range b.Preds {
				e := [2]int{p.Index, b.Index}
				if ci.backEdge[e] {
					continue
				}
				if s, ok := edgeStates[e]; ok && s != nil && s.pc.S != "false" {
					ss = append(ss, s)
					inEdges = append(inEdges, e)
				}
			}
			if len(ss) == 0 {
				continue // unreachable
			}
			in = u.merge(ss)
			if len(ss) > 1 {
				in = in.Clone()
			}
		}
		cur := in.Clone()
		// phis
		idx := 0
		var phis []*ssa.Phi
		for _, ins := range b.Instrs {
			if phi, ok := ins.(*ssa.Phi); ok {
				phis = append(phis, phi)
				idx++
			} else {
				break
			}
		}
		isHead := ci.loopHead[b.Index]
		if !isHead {
			for _, phi := range phis {
				var t Term
				first := true
				// ite chain over incoming live edges
				for i := len(b.Preds) - 1; i >= 0; i-- {
					e := [2]int{b.Preds[i].Index, b.Index}
					s, ok := edgeStates[e]
					if !ok || s == nil || s.pc.S == "false" || ci.backEdge[e] {
						continue
					}
					v := u.operand(fr, phi.Edges[i])
					if v.Elem != nil || v.Tuple != nil || v.Iter != nil {
						panic("phi of non-term value in " + fnName(fn))
					}
					if first {
						t = v.T
						first = false
					} else {
						t = Ite(s.pc, v.T, t)
					}
				}
				fr.vals[phi] = &Val{T: u.define(phi.Name(), t)}
			}
		} else {
			cur = u.loopHead(fr, ci, b, phis, cur, edgeStates)
		}
		blockEntry[b.Index] = cur
		// instructions
		dead := false
		for _, ins := range b.Instrs[idx:] {
			if dead {
				break
			}
			switch x := ins.(type) {
			case *ssa.If:
				c := u.operand(fr, x.Cond).T
				ts := cur.Clone()
				ts.pc = u.define("pc", And(cur.pc, c))
				fs := cur.Clone()
				fs.pc = u.define("pc", And(cur.pc, Not(c)))
				u.setEdge(fr, ci, b, b.Succs[0], ts, edgeStates)
				u.setEdge(fr, ci, b, b.Succs[1], fs, edgeStates)
			case *ssa.Jump:
				u.setEdge(fr, ci, b, b.Succs[0], cur, edgeStates)
			case *ssa.Return:
				rs := cur
				if len(fr.defers) > 0 || fn.Recover != nil {
					// RunDefers handled at the RunDefers instruction
				}
				var vs []*Val
				for _, r := range x.Results {
					vs = append(vs, u.operand(fr, r))
				}
				retStates = append(retStates, rs)
				retVals = append(retVals, vs)
				retOrds = append(retOrds, retOrdOf[x])
			case *ssa.Panic:
				if u.genPanics {
					u.oblige(cur, "panic", fnName(fn), "panic@explicit#"+u.eng.posOf(x.Pos()), u.eng.posOf(x.Pos()), False, nil)
				}
				dead = true
			default:
				cur = u.execInstr(fr, cur, ins)
				if cur == nil {
					dead = true
				}
			}
		}
		exitStates[b.Index] = cur
	}
	// panics caught by a deferred recover(): run the deferred closures, then the function's recover block
	if len(fr.panicStates) > 0 && fn.Recover != nil {
		ps := u.merge(fr.panicStates)
		if ps != nil {
			cur := ps.Clone()
			for i := len(fr.defers) - 1; i >= 0 && cur != nil; i-- {
				d := fr.defers[i]
				nf := &Frame{fn: d.Clo.Fn, vals: map[ssa.Value]*Val{}, caller: fr, depth: fr.depth + 1, u: u, entry: cur, recovering: true}
				for j, fv := range d.Clo.Fn.FreeVars {
					nf.vals[fv] = d.Clo.Bindings[j]
				}
				u.comment("deferred closure (recovering) " + fnName(d.Clo.Fn))
				r := u.execFunction(nf, cur)
				cur = r.st
				if cur != nil {
					cur = cur.Clone()
				}
			}
			if cur != nil {
				for _, ins := range fn.Recover.Instrs {
					if ret, ok := ins.(*ssa.Return); ok {
						var vs []*Val
						for _, rv := range ret.Results {
							vs = append(vs, u.operand(fr, rv))
						}
						retStates = append(retStates, cur)
						retVals = append(retVals, vs)
						retOrds = append(retOrds, retOrdOf[ret])
						break
					}
					cur = u.execInstr(fr, cur, ins)
				}
			}
		}
	}
	if len(retStates) == 0 {
		return &execResult{st: nil}
	}
	// merge returns
	var live []*State
	var liveVals [][]*Val
	for i, s := range retStates {
		if s != nil && s.pc.S != "false" {
			live = append(live, s)
			liveVals = append(liveVals, retVals[i])
		}
	}
	if len(live) == 0 {
		return &execResult{st: nil}
	}
	var sites []retSite
	for i, s := range retStates {
		if s != nil && s.pc.S != "false" {
			sites = append(sites, retSite{st: s, vals: retVals[i], ord: retOrds[i]})
		}
	}
	out := u.merge(live)
	nres := len(liveVals[0])
	res := make([]*Val, nres)
	for j := 0; j < nres; j++ {
		ts := make([]Term, len(live))
		for i := range live {
			v := liveVals[i][j]
			if v.T.S == "" {
				panic("non-term return value in " + fnName(fn))
			}
			ts[i] = v.T
		}
		res[j] = &Val{T: u.define("ret", mergeTerms(live, ts))}
	}
	return &execResult{st: out, vals: res, rets: sites}
}

func (u *Unit) setEdge(fr *Frame, ci *cfgInfo, from, to *ssa.BasicBlock, s *State, edges map[[2]int]*State) {
	e := [2]int{from.Index, to.Index}
	if ci.backEdge[e] {
		u.loopBackEdge(fr, ci, from, to, s)
		return
	}
	if old, ok := edges[e]; ok && old != nil {
		// two edges between same blocks (e.g. if with same target): merge
		edges[e] = u.merge([]*State{old, s})
		return
	}
	edges[e] = s
}

// operand evaluates an SSA value in a frame.
func (u *Unit) operand(fr *Frame, v ssa.Value) *Val {
	if x, ok := fr.vals[v]; ok {
		return x
	}
	switch c := v.(type) {
	case *ssa.Const:
		return &Val{T: u.constTerm(c)}
	case *ssa.Global:
		return &Val{T: u.eng.globalAddr(c)}
	case *ssa.Function:
		return &Val{Clo: &Closure{Fn: c}, T: IntLit(1)}
	case *ssa.Builtin:
		return &Val{T: IntLit(0)}
	case *ssa.FreeVar:
		panic("unbound free var " + c.Name() + " in " + fnName(fr.fn))
	}
	panic(fmt.Sprintf("operand: no value for %s (%T) in %s", v.Name(), v, fnName(fr.fn)))
}

func (u *Unit) constTerm(c *ssa.Const) Term {
	reg := u.eng.reg
	t := c.Type()
	if c.Value == nil {
		return reg.ZeroOf(t)
	}
	switch c.Value.Kind() {
	case constant.Bool:
		return BoolLit(constant.BoolVal(c.Value))
	case constant.Int:
		return BigLit(c.Value.ExactString())
	case constant.String:
		return u.eng.strLit(constant.StringVal(c.Value))
	case constant.Float:
		return Term{"0.0", "Real"}
	}
	panic("constTerm: " + c.String())
}

// ---- instructions ----

func (u *Unit) panicObl(st *State, fr *Frame, ins ssa.Instruction, kind string, cond Term) {
	if !u.genPanics {
		return
	}
	// name: function.panic@kind#ordinal (ordinal of this kind within the function, stable against line moves)
	n := u.eng.instrOrdinal(ins, kind)
	label := fmt.Sprintf("panic@%s#%d", kind, n)
	top := fr
	for top.caller != nil {
		top = top.caller
	}
	name := fnName(ins.Parent())
	o := u.oblige(st, "panic", name, label, u.eng.posOf(ins.Pos()), cond, []string{"C06"})
	if fr.caller != nil {
		o.Name = fnName(top.fn) + ">" + o.Name
	}
}

func (u *Unit) execInstr(fr *Frame, st *State, ins ssa.Instruction) *State {
	reg := u.eng.reg
	switch x := ins.(type) {
	case *ssa.DebugRef:
		return st
	case *ssa.Alloc:
		et := x.Type().(*types.Pointer).Elem()
		a := u.newObj(st)
		addr := MkAddr(a)
		if isMsgStruct(et) {
			u.assume(st.pc, App(SBool, "is_msg_obj", a))
		}
		u.zeroInit(st, addr, et)
		fr.vals[x] = &Val{T: addr}
		return st
	case *ssa.BinOp:
		fr.vals[x] = &Val{T: u.binop(fr, st, x)}
		return st
	case *ssa.UnOp:
		return u.unop(fr, st, x)
	case *ssa.ChangeType:
		v := u.operand(fr, x.X)
		t := v.T
		from, to := reg.SortOf(x.X.Type()), reg.SortOf(x.Type())
		if from != to {
			// struct value conversion between identical underlying types
			fs, ok1 := x.X.Type().Underlying().(*types.Struct)
			_, ok2 := x.Type().Underlying().(*types.Struct)
			if !ok1 || !ok2 {
				panic("ChangeType between different sorts: " + x.String())
			}
			si, so := reg.Struct(x.X.Type()), reg.Struct(x.Type())
			args := make([]Term, fs.NumFields())
			for i := range args {
				args[i] = App(si.Fields[i].Sort, si.Fields[i].Sel, t)
			}
			t = App(Sort(so.Name), "mk_"+so.Name, args...)
		}
		nv := *v
		nv.T = t
		fr.vals[x] = &nv
		return st
	case *ssa.Convert:
		fr.vals[x] = &Val{T: u.convert(fr, st, x)}
		return st
	case *ssa.ChangeInterface:
		fr.vals[x] = u.operand(fr, x.X)
		return st
	case *ssa.MakeInterface:
		v := u.operand(fr, x.X)
		fr.vals[x] = &Val{T: u.makeIface(x.X.Type(), v.T)}
		return st
	case *ssa.TypeAssert:
		return u.typeAssert(fr, st, x)
	case *ssa.Extract:
		tv := u.operand(fr, x.Tuple)
		if tv.Tuple == nil {
			panic("extract from non-tuple: " + x.String() + " in " + fnName(fr.fn))
		}
		fr.vals[x] = tv.Tuple[x.Index]
		return st
	case *ssa.FieldAddr:
		p := u.operand(fr, x.X).T
		u.panicObl(st, fr, x, "nilderef", Neq(App(SInt, "aobj", p), IntLit(0)))
		u.assume(st.pc, Neq(App(SInt, "aobj", p), IntLit(0)))
		fr.vals[x] = &Val{T: u.define(x.Name(), FieldAddrT(p, x.Field))}
		return st
	case *ssa.Field:
		v := u.operand(fr, x.X).T
		si := reg.Struct(x.X.Type())
		f := si.Fields[x.Field]
		fr.vals[x] = &Val{T: App(f.Sort, f.Sel, v)}
		return st
	case *ssa.IndexAddr:
		return u.indexAddr(fr, st, x)
	case *ssa.Index:
		return u.index(fr, st, x)
	case *ssa.Lookup:
		return u.lookup(fr, st, x)
	case *ssa.Slice:
		return u.sliceOp(fr, st, x)
	case *ssa.Store:
		return u.store(fr, st, x)
	case *ssa.MapUpdate:
		return u.mapUpdate(fr, st, x)
	case *ssa.MakeMap:
		id := u.newObj(st)
		mt := x.Type().Underlying().(*types.Map)
		k, v := reg.SortOf(mt.Key()), u.mapValSort(mt)
		md, ml := "MD:"+string(k)+":"+string(v), "ML"
		u.setComp(st, md, Store(u.comp(st, md), id, Term{fmt.Sprintf("((as const (Array %s Bool)) false)", k), ArraySort(k, SBool)}))
		u.setComp(st, ml, Store(u.comp(st, ml), id, IntLit(0)))
		fr.vals[x] = &Val{T: id}
		return st
	case *ssa.MakeSlice:
		return u.makeSlice(fr, st, x)
	case *ssa.MakeClosure:
		c := &Closure{Fn: x.Fn.(*ssa.Function)}
		for _, b := range x.Bindings {
			c.Bindings = append(c.Bindings, u.operand(fr, b))
		}
		fr.vals[x] = &Val{Clo: c, T: IntLit(1)}
		return st
	case *ssa.Range:
		return u.rangeOp(fr, st, x)
	case *ssa.Next:
		return u.next(fr, st, x)
	case *ssa.Call:
		return u.call(fr, st, x)
	case *ssa.Defer:
		fv := u.operand(fr, x.Call.Value)
		fr.defers = append(fr.defers, fv)
		return st
	case *ssa.RunDefers:
		// deferred closures in scope only recover from panics (decodeBytes);
		// on the normal path they run and recover() returns nil: no effect.
		for _, d := range fr.defers {
			if d.Clo == nil || !onlyRecovers(d.Clo.Fn) {
				panic("unsupported defer in " + fnName(fr.fn))
			}
		}
		return st
	case *ssa.Go, *ssa.Select, *ssa.Send, *ssa.MakeChan:
		panic("concurrency instruction outside the subset: " + ins.String())
	}
	panic(fmt.Sprintf("execInstr: unsupported %T: %s in %s", ins, ins, fnName(fr.fn)))
}

func onlyRecovers(fn *ssa.Function) bool {
	// the closure must consist of: recover(), compare with nil, and stores to its free variables
	for _, b := range fn.Blocks {
		for _, ins := range b.Instrs {
			switch y := ins.(type) {
			case *ssa.Call:
				if bi, ok := y.Call.Value.(*ssa.Builtin); ok && bi.Name() == "recover" {
					continue
				}
				// fmt.Errorf allowed on the recovered path
				if f, ok := y.Call.Value.(*ssa.Function); ok && f.Pkg != nil && f.Pkg.Pkg.Path() == "fmt" {
					continue
				}
				return false
			case *ssa.Go, *ssa.Defer, *ssa.Send:
				return false
			}
		}
	}
	return true
}

func (u *Unit) mapValSort(mt *types.Map) Sort {
	if st, ok := mt.Elem().Underlying().(*types.Struct); ok && st.NumFields() == 0 {
		return SUnit
	}
	return u.eng.reg.SortOf(mt.Elem())
}

func (u *Unit) newObj(st *State) Term {
	a := u.comp(st, "alloc")
	id := u.define("obj", a)
	u.setComp(st, "alloc", Add(a, IntLit(1)))
	return id
}

func (u *Unit) zeroInit(st *State, addr Term, t types.Type) {
	reg := u.eng.reg
	if isBigInt(t) {
		u.setComp(st, "BIG", Store(u.comp(st, "BIG"), addr, IntLit(0)))
		return
	}
	switch ut := t.Underlying().(type) {
	case *types.Struct:
		for i := 0; i < ut.NumFields(); i++ {
			u.zeroInit(st, FieldAddrT(addr, i), ut.Field(i).Type())
		}
	case *types.Array:
		es := u.elemSort(ut.Elem())
		c := ecomp(es)
		z := reg.ZeroOf(ut.Elem())
		u.setComp(st, c, Store(u.comp(st, c), App(SInt, "aobj", addr),
			Term{fmt.Sprintf("((as const (Array Int %s)) %s)", es, z.S), ArraySort(SInt, es)}))
	default:
		u.storeType(st, addr, t, reg.ZeroOf(t))
	}
}

func (u *Unit) elemSort(t types.Type) Sort { return u.eng.reg.SortOf(t) }

func (u *Unit) makeIface(t types.Type, v Term) Term {
	if _, ok := t.Underlying().(*types.Interface); ok {
		return v
	}
	if b, ok := t.(*types.Basic); ok && b.Kind() == types.UntypedNil {
		return AnyNil
	}
	c := u.eng.reg.AnyConOf(t)
	if c == nil {
		// unregistered type: opaque
		u.eng.warn("makeIface: unregistered type " + t.String())
		return App(SAny, "A_other", IntLit(tidOpaque), IntLit(0))
	}
	return App(SAny, c.Con, v)
}

func (u *Unit) isType(a Term, t types.Type) Term {
	c := u.eng.reg.AnyConOf(t)
	if c == nil {
		return False
	}
	return Term{fmt.Sprintf("((_ is %s) %s)", c.Con, a.S), SBool}
}

func (u *Unit) payload(a Term, t types.Type) Term {
	c := u.eng.reg.AnyConOf(t)
	return App(c.Payload, c.Sel, a)
}

// implementsTerm: dynamic type of a implements interface it.
func (u *Unit) implementsTerm(a Term, it types.Type) Term {
	iface := it.Underlying().(*types.Interface)
	var ds []Term
	for _, c := range u.eng.reg.sortedAnyCons() {
		if types.Implements(c.T, iface) {
			ds = append(ds, Term{fmt.Sprintf("((_ is %s) %s)", c.Con, a.S), SBool})
		}
	}
	// unknown dynamic types: uninterpreted predicate on the type id
	fname := "implements_" + mangle(typeKey(it))
	u.eng.declareFun(fname, []Sort{SInt}, SBool)
	ds = append(ds, And(Term{"((_ is A_other) " + a.S + ")", SBool}, App(SBool, fname, App(SInt, "other_tid", a))))
	if iface.NumMethods() == 0 {
		return Neq(a, AnyNil)
	}
	return Or(ds...)
}

func (u *Unit) typeAssert(fr *Frame, st *State, x *ssa.TypeAssert) *State {
	a := u.operand(fr, x.X).T
	var ok, val Term
	if _, isIface := x.AssertedType.Underlying().(*types.Interface); isIface {
		ok = u.implementsTerm(a, x.AssertedType)
		val = a
		if x.CommaOk {
			val = Ite(ok, a, AnyNil)
		}
	} else {
		ok = u.isType(a, x.AssertedType)
		if u.eng.reg.AnyConOf(x.AssertedType) == nil {
			panic("type assert to unregistered type " + x.AssertedType.String())
		}
		val = u.payload(a, x.AssertedType)
		if x.CommaOk {
			val = Ite(ok, val, u.eng.reg.ZeroOf(x.AssertedType))
		}
	}
	if x.CommaOk {
		okv := u.define(x.Name()+"ok", ok)
		fr.vals[x] = &Val{Tuple: []*Val{{T: u.define(x.Name(), val)}, {T: okv}}}
		return st
	}
	u.panicObl(st, fr, x, "typeassert", ok)
	u.assume(st.pc, ok)
	fr.vals[x] = &Val{T: u.define(x.Name(), val)}
	return st
}

func (u *Unit) unop(fr *Frame, st *State, x *ssa.UnOp) *State {
	v := u.operand(fr, x.X)
	switch x.Op {
	case token.NOT:
		fr.vals[x] = &Val{T: Not(v.T)}
	case token.SUB:
		fr.vals[x] = &Val{T: Wrap(App(SInt, "-", v.T), x.Type())}
	case token.XOR:
		// ^x = -x-1 for signed; for unsigned max-x
		bits, signed := intBits(x.Type())
		if signed {
			fr.vals[x] = &Val{T: Sub(App(SInt, "-", v.T), IntLit(1))}
		} else {
			fr.vals[x] = &Val{T: Sub(Sub(BigLit(pow2(bits)), IntLit(1)), v.T)}
		}
	case token.MUL: // load
		if v.Elem != nil {
			es := u.elemSort(v.Elem.Elem)
			t := Select(Select(u.comp(st, ecomp(es)), v.Elem.Arr), v.Elem.Idx)
			t = u.define(x.Name(), t)
			u.assumeLoaded(st, t, v.Elem.Elem)
			fr.vals[x] = &Val{T: t}
			return st
		}
		if g, ok := x.X.(*ssa.Global); ok {
			fr.vals[x] = &Val{T: u.eng.globalValue(u, st, g)}
			return st
		}
		p := v.T
		u.panicObl(st, fr, x, "nilderef", Neq(App(SInt, "aobj", p), IntLit(0)))
		u.assume(st.pc, Neq(App(SInt, "aobj", p), IntLit(0)))
		t := u.define(x.Name(), u.loadType(st, p, x.Type()))
		u.assumeLoaded(st, t, x.Type())
		fr.vals[x] = &Val{T: t}
	default:
		panic("unop: " + x.String())
	}
	return st
}

// assumeLoaded adds the type invariant of a value read from the heap.
func (u *Unit) assumeLoaded(st *State, t Term, ty types.Type) {
	inv := u.typeInv(t, ty, u.comp(st, "alloc"))
	u.assume(st.pc, inv)
}

func (u *Unit) store(fr *Frame, st *State, x *ssa.Store) *State {
	v := u.operand(fr, x.Val)
	a := u.operand(fr, x.Addr)
	if a.Elem != nil {
		es := u.elemSort(a.Elem.Elem)
		c := ecomp(es)
		E := u.comp(st, c)
		u.noteWrite(fr, st, x, "elem", a.Elem.Arr)
		u.setComp(st, c, Store(E, a.Elem.Arr, Store(Select(E, a.Elem.Arr), a.Elem.Idx, v.T)))
		return st
	}
	if g, ok := x.Addr.(*ssa.Global); ok {
		u.eng.globalStore(u, fr, st, g, v.T)
		return st
	}
	u.panicObl(st, fr, x, "nilderef", Neq(App(SInt, "aobj", a.T), IntLit(0)))
	u.assume(st.pc, Neq(App(SInt, "aobj", a.T), IntLit(0)))
	u.noteWrite(fr, st, x, "addr", a.T)
	u.storeType(st, a.T, x.Val.Type(), v.T)
	return st
}

// noteWrite is a hook for frame checking; frames are checked at exit by
// comparing heaps, so nothing is recorded here.
func (u *Unit) noteWrite(fr *Frame, st *State, ins ssa.Instruction, kind string, target Term) {}

func (u *Unit) indexAddr(fr *Frame, st *State, x *ssa.IndexAddr) *State {
	base := u.operand(fr, x.X)
	idx := u.operand(fr, x.Index).T
	switch t := x.X.Type().Underlying().(type) {
	case *types.Slice:
		s := base.T
		u.panicObl(st, fr, x, "index", And(Le(IntLit(0), idx), Lt(idx, SLen(s))))
		u.assume(st.pc, And(Le(IntLit(0), idx), Lt(idx, SLen(s))))
		fr.vals[x] = &Val{Elem: &ElemRef{Arr: SArr(s), Idx: ElemIdx(SOff(s), idx), Elem: t.Elem()}}
	case *types.Pointer:
		at := t.Elem().Underlying().(*types.Array)
		p := base.T
		u.panicObl(st, fr, x, "nilderef", Neq(App(SInt, "aobj", p), IntLit(0)))
		u.panicObl(st, fr, x, "index", And(Le(IntLit(0), idx), Lt(idx, IntLit(at.Len()))))
		u.assume(st.pc, And(Le(IntLit(0), idx), Lt(idx, IntLit(at.Len()))))
		fr.vals[x] = &Val{Elem: &ElemRef{Arr: App(SInt, "aobj", p), Idx: idx, Elem: at.Elem()}}
	default:
		panic("indexAddr: " + x.String())
	}
	return st
}

func (u *Unit) index(fr *Frame, st *State, x *ssa.Index) *State {
	base := u.operand(fr, x.X).T
	idx := u.operand(fr, x.Index).T
	switch t := x.X.Type().Underlying().(type) {
	case *types.Basic: // string
		u.panicObl(st, fr, x, "index", And(Le(IntLit(0), idx), Lt(idx, App(SInt, "str_len", base))))
		u.assume(st.pc, And(Le(IntLit(0), idx), Lt(idx, App(SInt, "str_len", base))))
		fr.vals[x] = &Val{T: App(SInt, "str_at", base, idx)}
	case *types.Array:
		es := u.elemSort(t.Elem())
		u.panicObl(st, fr, x, "index", And(Le(IntLit(0), idx), Lt(idx, IntLit(t.Len()))))
		fr.vals[x] = &Val{T: Select(Select(u.comp(st, ecomp(es)), base), idx)}
	default:
		panic("index: " + x.String())
	}
	return st
}

func (u *Unit) mapComps(mt *types.Map) (md, mv string, k, v Sort) {
	k, v = u.eng.reg.SortOf(mt.Key()), u.mapValSort(mt)
	return "MD:" + string(k) + ":" + string(v), "MV:" + string(k) + ":" + string(v), k, v
}

// hashable: map key of interface type must have a comparable dynamic type.
func (u *Unit) hashable(k Term, kt types.Type) Term {
	if _, ok := kt.Underlying().(*types.Interface); !ok {
		return True
	}
	return App(SBool, "any_hashable", k)
}

func (u *Unit) lookup(fr *Frame, st *State, x *ssa.Lookup) *State {
	base := u.operand(fr, x.X).T
	key := u.operand(fr, x.Index).T
	if b, ok := x.X.Type().Underlying().(*types.Basic); ok && b.Info()&types.IsString != 0 {
		u.panicObl(st, fr, x, "index", And(Le(IntLit(0), key), Lt(key, App(SInt, "str_len", base))))
		u.assume(st.pc, And(Le(IntLit(0), key), Lt(key, App(SInt, "str_len", base))))
		fr.vals[x] = &Val{T: u.define(x.Name(), App(SInt, "str_at", base, key))}
		u.assume(st.pc, And(Le(IntLit(0), fr.vals[x].T), Le(fr.vals[x].T, IntLit(255))))
		return st
	}
	mt := x.X.Type().Underlying().(*types.Map)
	md, mv, _, vs := u.mapComps(mt)
	u.panicObl(st, fr, x, "maphash", u.hashable(key, mt.Key()))
	dom := Select(Select(u.comp(st, md), base), key)
	in := u.define(x.Name()+"in", dom)
	var val Term
	if vs == SUnit {
		val = Term{"unit", SUnit}
	} else {
		val = Ite(in, Select(Select(u.comp(st, mv), base), key), u.eng.reg.ZeroOf(mt.Elem()))
		val = u.define(x.Name(), val)
		u.assumeLoaded(st, val, mt.Elem())
	}
	u.mapFacts(st, base, in)
	if x.CommaOk {
		fr.vals[x] = &Val{Tuple: []*Val{{T: val}, {T: in}}}
	} else {
		fr.vals[x] = &Val{T: val}
	}
	return st
}

// mapFacts relates membership and length for map m.
func (u *Unit) mapFacts(st *State, m Term, in Term) {
	ml := Select(u.comp(st, "ML"), m)
	u.assume(st.pc, And(Ge(ml, IntLit(0)), Implies(in, Ge(ml, IntLit(1))), Implies(Eq(m, IntLit(0)), Not(in))))
}

func (u *Unit) mapUpdate(fr *Frame, st *State, x *ssa.MapUpdate) *State {
	m := u.operand(fr, x.Map).T
	key := u.operand(fr, x.Key).T
	val := u.operand(fr, x.Value).T
	mt := x.Map.Type().Underlying().(*types.Map)
	md, mv, _, vs := u.mapComps(mt)
	u.panicObl(st, fr, x, "nilmap", Neq(m, IntLit(0)))
	u.panicObl(st, fr, x, "maphash", u.hashable(key, mt.Key()))
	u.assume(st.pc, Neq(m, IntLit(0)))
	D := u.comp(st, md)
	was := u.define("was", Select(Select(D, m), key))
	u.setComp(st, md, Store(D, m, Store(Select(D, m), key, True)))
	if vs != SUnit {
		V := u.comp(st, mv)
		u.setComp(st, mv, Store(V, m, Store(Select(V, m), key, val)))
	}
	L := u.comp(st, "ML")
	u.setComp(st, "ML", Store(L, m, Add(Select(L, m), Ite(was, IntLit(0), IntLit(1)))))
	return st
}

func (u *Unit) makeSlice(fr *Frame, st *State, x *ssa.MakeSlice) *State {
	ln := u.operand(fr, x.Len).T
	cp := u.operand(fr, x.Cap).T
	et := x.Type().Underlying().(*types.Slice).Elem()
	u.panicObl(st, fr, x, "makeslice", And(Le(IntLit(0), ln), Le(ln, cp)))
	u.assume(st.pc, And(Le(IntLit(0), ln), Le(ln, cp)))
	id := u.newObj(st)
	es := u.elemSort(et)
	c := ecomp(es)
	z := u.eng.reg.ZeroOf(et)
	u.setComp(st, c, Store(u.comp(st, c), id, Term{fmt.Sprintf("((as const (Array Int %s)) %s)", es, z.S), ArraySort(SInt, es)}))
	fr.vals[x] = &Val{T: u.define(x.Name(), MkSlice(id, IntLit(0), ln, cp))}
	return st
}

func (u *Unit) sliceOp(fr *Frame, st *State, x *ssa.Slice) *State {
	base := u.operand(fr, x.X)
	var lo, hi, mx Term
	lo = IntLit(0)
	if x.Low != nil {
		lo = u.operand(fr, x.Low).T
	}
	switch t := x.X.Type().Underlying().(type) {
	case *types.Slice:
		s := base.T
		hi = SLen(s)
		if x.High != nil {
			hi = u.operand(fr, x.High).T
		}
		mx = SCap(s)
		if x.Max != nil {
			mx = u.operand(fr, x.Max).T
			u.panicObl(st, fr, x, "slice", And(Le(IntLit(0), lo), Le(lo, hi), Le(hi, mx), Le(mx, SCap(s))))
		} else {
			u.panicObl(st, fr, x, "slice", And(Le(IntLit(0), lo), Le(lo, hi), Le(hi, SCap(s))))
		}
		u.assume(st.pc, And(Le(IntLit(0), lo), Le(lo, hi), Le(hi, mx), Le(mx, SCap(s))))
		// slicing a nil slice yields nil
		r := MkSlice(SArr(s), Add(SOff(s), lo), Sub(hi, lo), Sub(mx, lo))
		r = Ite(Eq(SArr(s), IntLit(0)), NilSlice, r)
		fr.vals[x] = &Val{T: u.define(x.Name(), r)}
	case *types.Pointer:
		at := t.Elem().Underlying().(*types.Array)
		p := base.T
		n := IntLit(at.Len())
		hi = n
		if x.High != nil {
			hi = u.operand(fr, x.High).T
		}
		mx = n
		if x.Max != nil {
			mx = u.operand(fr, x.Max).T
		}
		u.panicObl(st, fr, x, "nilderef", Neq(App(SInt, "aobj", p), IntLit(0)))
		u.panicObl(st, fr, x, "slice", And(Le(IntLit(0), lo), Le(lo, hi), Le(hi, mx), Le(mx, n)))
		u.assume(st.pc, And(Le(IntLit(0), lo), Le(lo, hi), Le(hi, mx), Le(mx, n)))
		fr.vals[x] = &Val{T: u.define(x.Name(), MkSlice(App(SInt, "aobj", p), lo, Sub(hi, lo), Sub(mx, lo)))}
	case *types.Basic: // string
		s := base.T
		ln := App(SInt, "str_len", s)
		hi = ln
		if x.High != nil {
			hi = u.operand(fr, x.High).T
		}
		u.panicObl(st, fr, x, "slice", And(Le(IntLit(0), lo), Le(lo, hi), Le(hi, ln)))
		u.assume(st.pc, And(Le(IntLit(0), lo), Le(lo, hi), Le(hi, ln)))
		fr.vals[x] = &Val{T: u.define(x.Name(), App(SStr, "str_sub", s, lo, hi))}
	default:
		panic("slice op on " + x.X.Type().String())
	}
	return st
}

func (u *Unit) rangeOp(fr *Frame, st *State, x *ssa.Range) *State {
	base := u.operand(fr, x.X).T
	mt, ok := x.X.Type().Underlying().(*types.Map)
	if !ok {
		panic("range over non-map (string) unsupported: " + x.String())
	}
	k := u.eng.reg.SortOf(mt.Key())
	gname := fmt.Sprintf("G:%s:seen!%s!%s", ArraySort(k, SBool), mangle(fnName(fr.fn)), x.Name())
	if fr.depth > 0 {
		gname += fmt.Sprintf("!d%d!%d", fr.depth, u.nfr)
	}
	u.setComp(st, gname, Term{fmt.Sprintf("((as const (Array %s Bool)) false)", k), ArraySort(k, SBool)})
	fr.vals[x] = &Val{Iter: &IterInfo{Map: base, MapT: mt, Ghost: gname}}
	return st
}

func (u *Unit) next(fr *Frame, st *State, x *ssa.Next) *State {
	it := u.operand(fr, x.Iter).Iter
	if it == nil {
		panic("next on non-iterator")
	}
	mt := it.MapT
	md, mv, ks, vs := u.mapComps(mt)
	seen := u.comp(st, it.Ghost)
	dom := Select(u.comp(st, md), it.Map)
	ok := u.fresh(x.Name()+"ok", SBool)
	k := u.fresh(x.Name()+"k", ks)
	// ok => k in dom \ seen ; !ok => forall k. dom k => seen k
	u.assume(st.pc, Implies(ok, And(Select(dom, k), Not(Select(seen, k)))))
	qv := Term{"qk!", ks}
	u.assume(st.pc, Implies(Not(ok), Forall([]Term{qv}, Implies(Select(dom, qv), Select(seen, qv)), []Term{Select(dom, qv)})))
	u.assume(st.pc, u.typeInv(k, mt.Key(), u.comp(st, "alloc")))
	if _, isIface := mt.Key().Underlying().(*types.Interface); isIface {
		u.assume(st.pc, Implies(ok, App(SBool, "any_hashable", k)))
	}
	u.mapFacts(st, it.Map, And(ok, Select(dom, k)))
	u.setComp(st, it.Ghost, Ite(ok, Store(seen, k, True), seen))
	var v Term
	if vs == SUnit {
		v = Term{"unit", SUnit}
	} else {
		v = u.define(x.Name()+"v", Select(Select(u.comp(st, mv), it.Map), k))
		u.assumeLoaded(st, v, mt.Elem())
	}
	fr.vals[x] = &Val{Tuple: []*Val{{T: ok}, {T: k}, {T: v}}}
	return st
}
