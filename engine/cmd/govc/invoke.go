package main

import (
	"fmt"
	"go/types"

	"golang.org/x/tools/go/ssa"
)

func ifaceName(t types.Type) string {
	if n, ok := t.(*types.Named); ok {
		if n.Obj().Pkg() != nil {
			return n.Obj().Pkg().Path() + "." + n.Obj().Name()
		}
		return n.Obj().Name()
	}
	return t.String()
}

var invokeDocs = map[string]string{
	"Signer.Algorithm":        "uninterpreted int64 function of the receiver",
	"Signer.Sign":             "uninterpreted function of (receiver, rand, content bytes, call epoch): returns an arbitrary allocated byte slice and an arbitrary error; does not write memory reachable from the arguments",
	"Verifier.Algorithm":      "uninterpreted int64 function of the receiver",
	"Verifier.Verify":         "error is an uninterpreted function of (receiver, content bytes, signature bytes); does not write memory",
	"crypto.Signer.Public":    "uninterpreted function of the receiver",
	"crypto.Signer.Sign":      "uninterpreted function of (receiver, rand, digest bytes, options, epoch)",
	"elliptic.Curve.Params":   "non-nil *CurveParams, function of the curve; N non-nil; BitSize/N.BitLen are 256/384/521 for the three NIST curves",
	"hash.Hash.Write":         "appends the bytes to the state; returns (len, nil)",
	"hash.Hash.Sum":           "returns append(b, digest) where digest = hash_of(alg, written bytes), of length hash_size(alg)",
	"error.Error":             "arbitrary string, function of the error value",
	"cbor.EncMode.Marshal":    "see cbor model: result bytes = enc(cv_of(value)); error nil iff enc_ok",
	"cbor.DecMode.Unmarshal":  "see cbor model (per destination type)",
	"cbor.DecMode.Wellformed": "nil iff the data is exactly one well-formed item under the mode",
}

func (u *Unit) invoke(fr *Frame, st *State, x *ssa.Call) *State {
	c := x.Call
	recv := u.operand(fr, c.Value).T
	args := make([]*Val, len(c.Args))
	for i, a := range c.Args {
		args[i] = u.operand(fr, a)
	}
	iname := ifaceName(c.Value.Type())
	m := c.Method.Name()
	key := iname + "." + m
	nn := Neq(recv, AnyNil)
	u.panicObl(st, fr, x, "nilinvoke", nn)
	u.assume(st.pc, nn)
	u.usedExterns["invoke "+key] = true
	if fr.top {
		ats := []types.Type{c.Value.Type()}
		all := []*Val{{T: recv}}
		for i, a := range c.Args {
			ats = append(ats, a.Type())
			all = append(all, args[i])
		}
		u.callsiteChecks(fr, st, x, u.calleeName(x), all, ats)
	}
	alloc := func() Term { return u.comp(st, "alloc") }
	switch key {
	case "github.com/veraison/go-cose.Signer.Algorithm", "github.com/veraison/go-cose.DigestSigner.Algorithm":
		r := App(SInt, "signer_alg", recv)
		u.assume(st.pc, InRange(r, types.Typ[types.Int64]))
		fr.vals[x] = &Val{T: r}
	case "github.com/veraison/go-cose.Verifier.Algorithm", "github.com/veraison/go-cose.DigestVerifier.Algorithm":
		r := App(SInt, "verifier_alg", recv)
		u.assume(st.pc, InRange(r, types.Typ[types.Int64]))
		fr.vals[x] = &Val{T: r}
	case "github.com/veraison/go-cose.Signer.Sign":
		ep := u.bumpEpoch(st)
		content := u.bytesOf(st, args[1].T)
		sig := u.fresh("sig", SSlice)
		// the signer may allocate
		a1 := u.fresh("alloc", SInt)
		u.assume(st.pc, Ge(a1, alloc()))
		st.comps["alloc"] = a1
		u.assume(st.pc, App(SBool, "slice_ok", sig, a1))
		err := u.define("signerr", App(SAny, "signer_sign_err", recv, args[0].T, content, ep))
		u.assume(st.pc, Eq(u.bytesOf(st, sig), App(SBytes, "signer_sign_bytes", recv, args[0].T, content, ep)))
		u.assume(st.pc, Eq(Eq(SArr(sig), IntLit(0)), App(SBool, "signer_sign_nil", recv, args[0].T, content, ep)))
		u.assume(st.pc, App(SBool, "any_ok", err, a1))
		fr.vals[x] = &Val{Tuple: []*Val{{T: sig}, {T: err}}}
	case "github.com/veraison/go-cose.Verifier.Verify":
		content := u.bytesOf(st, args[0].T)
		sg := u.bytesOf(st, args[1].T)
		// ghost counter of verifier invocations
		ve := u.comp(st, "vepoch")
		u.setComp(st, "vepoch", Add(ve, IntLit(1)))
		err := u.define("verifyres", App(SAny, "verifier_verify", recv, content, sg))
		u.assume(st.pc, App(SBool, "any_ok", err, alloc()))
		fr.vals[x] = &Val{T: err}
	case "crypto.Signer.Public":
		r := u.define("pub", App(SAny, "crypto_public", recv))
		u.assume(st.pc, App(SBool, "any_ok", r, alloc()))
		fr.vals[x] = &Val{T: r}
	case "crypto.Signer.Sign":
		ep := u.bumpEpoch(st)
		dig := u.bytesOf(st, args[1].T)
		sig := u.fresh("sig", SSlice)
		a1 := u.fresh("alloc", SInt)
		u.assume(st.pc, Ge(a1, alloc()))
		st.comps["alloc"] = a1
		u.assume(st.pc, App(SBool, "slice_ok", sig, a1))
		opts := u.optsAbs(st, args[2].T)
		err := u.define("csignerr", App(SAny, "crypto_sign_err", recv, args[0].T, dig, opts, ep))
		u.assume(st.pc, Eq(u.bytesOf(st, sig), App(SBytes, "crypto_sign_bytes", recv, args[0].T, dig, opts, ep)))
		u.assume(st.pc, App(SBool, "any_ok", err, a1))
		fr.vals[x] = &Val{Tuple: []*Val{{T: sig}, {T: err}}}
	case "crypto/elliptic.Curve.Params":
		p := u.define("params", App(SAddr, "curve_params", recv))
		fr.vals[x] = &Val{T: p}
		// facts about the parameter block in the current heap
		u.curveFacts(st, recv, p)
	case "hash.Hash.Write", "io.Writer.Write":
		hb := "G:(Array Int Bytes):hashbuf"
		id := App(SInt, "any_obj", recv)
		B := u.comp(st, hb)
		u.setComp(st, hb, Store(B, id, App(SBytes, "bcat", Select(B, id), u.bytesOf(st, args[0].T))))
		fr.vals[x] = &Val{Tuple: []*Val{{T: SLen(args[0].T)}, {T: AnyNil}}}
	case "hash.Hash.Sum":
		hb, ha := "G:(Array Int Bytes):hashbuf", "G:(Array Int Int):hashalg"
		id := App(SInt, "any_obj", recv)
		alg := Select(u.comp(st, ha), id)
		digest := App(SBytes, "hash_of", alg, Select(u.comp(st, hb), id))
		b := args[0].T
		nid := u.newObj(st)
		E := u.comp(st, ecomp(SInt))
		content := App(SBytes, "bcat", u.bytesOf(st, b), digest)
		ln := u.define("sumlen", Add(SLen(b), App(SInt, "hash_size", alg)))
		u.setComp(st, ecomp(SInt), Store(E, nid, App(ArraySort(SInt, SInt), "wr", Select(E, nid), IntLit(0), content)))
		u.assume(st.pc, Eq(App(SInt, "blen", digest), App(SInt, "hash_size", alg)))
		fr.vals[x] = &Val{T: u.define("sum", MkSlice(nid, IntLit(0), ln, ln))}
	case "error.Error":
		fr.vals[x] = &Val{T: App(SStr, "err_text", recv)}
	case "github.com/fxamacker/cbor/v2.EncMode.Marshal":
		return u.cborMarshal(fr, st, x, recv, args)
	case "github.com/fxamacker/cbor/v2.DecMode.Unmarshal":
		return u.cborUnmarshal(fr, st, x, recv, args)
	case "github.com/fxamacker/cbor/v2.DecMode.Wellformed":
		return u.cborWellformed(fr, st, x, recv, args)
	default:
		u.eng.warn("unmodelled interface method (results arbitrary, no heap effect assumed): " + key)
		u.usedExterns["invoke "+key+" (UNMODELLED)"] = true
		res := u.arbitraryResults(st, c.Signature())
		u.setResults(fr, x, res)
	}
	return st
}

func (u *Unit) invokeMods(x *ssa.Call, set map[string]bool) {
	key := ifaceName(x.Call.Value.Type()) + "." + x.Call.Method.Name()
	switch key {
	case "github.com/veraison/go-cose.Signer.Sign", "crypto.Signer.Sign":
		set["alloc"] = true
		set["epoch"] = true
	case "github.com/veraison/go-cose.Verifier.Verify":
		set["vepoch"] = true
	case "hash.Hash.Write", "io.Writer.Write":
		set["G:(Array Int Bytes):hashbuf"] = true
	case "hash.Hash.Sum":
		set["alloc"] = true
		set[ecomp(SInt)] = true
	case "github.com/fxamacker/cbor/v2.EncMode.Marshal":
		set["alloc"] = true
		set[ecomp(SInt)] = true
	case "github.com/fxamacker/cbor/v2.DecMode.Unmarshal":
		set["*"] = true
	}
}

// optsAbs abstracts a crypto.SignerOpts value: the hash it reports and, for
// *rsa.PSSOptions, the salt length.
func (u *Unit) optsAbs(st *State, o Term) Term {
	// crypto.Hash value or *rsa.PSSOptions
	var hashCon, pssCon *AnyCon
	for _, c := range u.eng.reg.anyList {
		switch c.Key {
		case "crypto.Hash":
			hashCon = c
		case "*crypto/rsa.PSSOptions":
			pssCon = c
		}
	}
	t := App("SignOpts", "opts_other", o)
	if pssCon != nil {
		p := App(SAddr, pssCon.Sel, o)
		HI := u.comp(st, hcomp(SInt))
		t = Ite(Term{fmt.Sprintf("((_ is %s) %s)", pssCon.Con, o.S), SBool},
			App("SignOpts", "opts_pss", Select(HI, FieldAddrT(p, 0)), Select(HI, FieldAddrT(p, 1))), t)
	}
	if hashCon != nil {
		t = Ite(Term{fmt.Sprintf("((_ is %s) %s)", hashCon.Con, o.S), SBool},
			App("SignOpts", "opts_hash", App(SInt, hashCon.Sel, o)), t)
	}
	t = Ite(Eq(o, AnyNil), Term{"opts_nil", "SignOpts"}, t)
	return u.define("opts", t)
}

// curveFacts: CurveParams{P, N, B, Gx, Gy *big.Int; BitSize int; Name string}
func (u *Unit) curveFacts(st *State, curve, p Term) {
	HP, HI, B := u.comp(st, hcomp(SAddr)), u.comp(st, hcomp(SInt)), u.comp(st, "BIG")
	n := Select(HP, FieldAddrT(p, 1))
	bs := Select(HI, FieldAddrT(p, 5))
	u.assume(st.pc, And(Neq(App(SInt, "aobj", p), IntLit(0)), Neq(App(SInt, "aobj", n), IntLit(0)),
		Lt(App(SInt, "aobj", p), IntLit(0)), Lt(App(SInt, "aobj", n), IntLit(0))))
	nv := Select(B, n)
	u.assume(st.pc, Gt(nv, IntLit(0)))
	for _, bits := range []int{256, 384, 521} {
		c := Term{fmt.Sprintf("curve_p%d", bits), SAny}
		u.assume(st.pc, Implies(Eq(curve, c), And(Eq(bs, IntLit(int64(bits))), Eq(App(SInt, "bitlen", nv), IntLit(int64(bits))))))
	}
}
