package main

import (
	"fmt"
	"go/types"
	"sort"
	"strings"
)

type preludeFn struct {
	args []Sort
	ret  Sort
}

// preludeFns are the functions declared in the fixed prelude that specs may
// call directly. User-declared uninterpreted spec functions are added at load.
var preludeFns = map[string]preludeFn{
	"blen":         {[]Sort{SBytes}, SInt},
	"bat":          {[]Sort{SBytes, SInt}, SInt},
	"bsub":         {[]Sort{SBytes, SInt, SInt}, SBytes},
	"bcat":         {[]Sort{SBytes, SBytes}, SBytes},
	"bempty":       {nil, SBytes},
	"be":           {[]Sort{SBytes}, SInt},
	"bebytes":      {[]Sort{SInt, SInt}, SBytes},
	"bitlen":       {[]Sort{SInt}, SInt},
	"enc":          {[]Sort{SCV}, SBytes},
	"enc_ok":       {[]Sort{SCV}, SBool},
	"cv_null":      {nil, SCV},
	"cv_undef":     {nil, SCV},
	"cv_int":       {[]Sort{SInt}, SCV},
	"cv_tstr":      {[]Sort{SStr}, SCV},
	"cv_bstr":      {[]Sort{SBytes}, SCV},
	"cv_raw":       {[]Sort{SBytes}, SCV},
	"cv_arr":       {[]Sort{SCVL}, SCV},
	"cv_tag":       {[]Sort{SInt, SCV}, SCV},
	"cvnil":        {nil, SCVL},
	"cvcons":       {[]Sort{SCV, SCVL}, SCVL},
	"str_len":      {[]Sort{SStr}, SInt},
	"str_at":       {[]Sort{SStr, SInt}, SInt},
	"str_count":    {[]Sort{SStr, SStr}, SInt},
	"wraps":        {[]Sort{SAny}, SAny},
	"hash_of":      {[]Sort{SInt, SBytes}, SBytes},
	"hash_size":    {[]Sort{SInt}, SInt},
	"any_hashable": {[]Sort{SAny}, SBool},
	// crypto (uninterpreted behaviours of the standard library and of caller-supplied keys)
	"hash_available":    {[]Sort{SInt}, SBool},
	"ecdsa_sign_err":    {[]Sort{"ECPriv", SAny, SBytes, SInt}, SAny},
	"ecdsa_sign_r":      {[]Sort{"ECPriv", SAny, SBytes, SInt}, SInt},
	"ecdsa_sign_s":      {[]Sort{"ECPriv", SAny, SBytes, SInt}, SInt},
	"ecdsa_verify":      {[]Sort{"ECPub", SBytes, SInt, SInt}, SBool},
	"ecdh_err":          {[]Sort{"ECPub"}, SAny},
	"ed25519_verify":    {[]Sort{SBytes, SBytes, SBytes}, SBool},
	"rsa_verify_pss":    {[]Sort{"RSAPub", SInt, SBytes, SBytes, SInt}, SAny},
	"signer_alg":        {[]Sort{SAny}, SInt},
	"verifier_alg":      {[]Sort{SAny}, SInt},
	"signer_sign_err":   {[]Sort{SAny, SAny, SBytes, SInt}, SAny},
	"signer_sign_bytes": {[]Sort{SAny, SAny, SBytes, SInt}, SBytes},
	"signer_sign_nil":   {[]Sort{SAny, SAny, SBytes, SInt}, SBool},
	"verifier_verify":   {[]Sort{SAny, SBytes, SBytes}, SAny},
	"crypto_public":     {[]Sort{SAny}, SAny},
	"crypto_sign_err":   {[]Sort{SAny, SAny, SBytes, "SignOpts", SInt}, SAny},
	"crypto_sign_bytes": {[]Sort{SAny, SAny, SBytes, "SignOpts", SInt}, SBytes},
	"asn1_err":          {[]Sort{SBytes}, SAny},
	"asn1_r":            {[]Sort{SBytes}, SInt},
	"asn1_s":            {[]Sort{SBytes}, SInt},
	"opts_nil":          {nil, "SignOpts"},
	"opts_hash":         {[]Sort{SInt}, "SignOpts"},
	"opts_pss":          {[]Sort{SInt, SInt}, "SignOpts"},
	"curve_p256":        {nil, SAny},
	"curve_p384":        {nil, SAny},
	"curve_p521":        {nil, SAny},
	"ed_pub_of_seed":    {[]Sort{SBytes}, SBytes},
	"bstr_wf":           {[]Sort{SBytes}, SBool},
	"head_minimal":      {[]Sort{SBytes}, SBool},
	"bstr_content":      {[]Sort{SBytes}, SBytes},
	"item_wf":           {[]Sort{SBytes}, SBool},
	"abs":               {[]Sort{SInt}, SInt},
	"any_canint":        {[]Sort{SAny}, SBool},
	"any_canuint":       {[]Sort{SAny}, SBool},
	"any_isbytes":       {[]Sort{SAny}, SBool},
	"any_intval":        {[]Sort{SAny}, SInt},
	"any_uintval":       {[]Sort{SAny}, SInt},
	"dec_shape_err":     {[]Sort{SAny, SBytes, SStr}, SAny},
	"dec_bytes_err":     {[]Sort{SAny, SBytes}, SAny},
	"dec_elem":          {[]Sort{SBytes, SInt}, SBytes},
	"dec_elem2":         {[]Sort{SBytes, SInt, SInt}, SBytes},
	"dec_count":         {[]Sort{SBytes, SInt}, SInt},
	"dec_isnull":        {[]Sort{SBytes, SInt}, SBool},
	"dec_any":           {[]Sort{SAny, SBytes}, SAny},
	"dec_map_dom":       {[]Sort{SAny, SBytes}, "(Array Any Bool)"},
	"dec_map_val":       {[]Sort{SAny, SBytes}, "(Array Any Any)"},
	"dec_map_len":       {[]Sort{SAny, SBytes}, SInt},
	"dec_map_raw":       {[]Sort{SAny, SBytes, SAny}, SBytes},
	"dec_labels_err":    {[]Sort{SAny, SBytes}, SAny},
	"dec_val_ok":        {[]Sort{SAny}, SBool},
	"has_int":           {[]Sort{"(Array Any Bool)", SInt}, SBool},
	"int_witness":       {[]Sort{"(Array Any Bool)", SInt}, SAny},
	"any_is_int":        {[]Sort{SAny}, SBool},
	"any_int_val":       {[]Sort{SAny}, SInt},
	"byte1":             {[]Sort{SInt}, SBytes},
	"wf_err":            {[]Sort{SAny, SBytes}, SAny},
	"b_major":           {[]Sort{SBytes}, SInt},
	"b_ai":              {[]Sort{SBytes}, SInt},
	"head_arg":          {[]Sort{SBytes}, SInt},
	"head_extra":        {[]Sort{SBytes}, SInt},
	"enc_list_ok":       {[]Sort{SCVL}, SBool},
	"cv_bool":           {[]Sort{SBool}, SCV},
}

func (env *SEnv) call(e *SExpr) *SVal {
	u := env.u
	boolT := types.Typ[types.Bool]
	switch e.Name {
	case "old":
		if env.old == nil {
			env.fail("old() not available here")
		}
		n := *env
		n.cur = env.old
		n.old = env.old
		return n.eval(e.Args[0])
	case "entry":
		// entry(e): the value e had when the loop was first reached (only in loop invariants)
		if env.loopEntry == nil {
			env.fail("entry() is only available in loop invariants")
		}
		n := *env
		n.cur = env.loopEntry
		return n.eval(e.Args[0])
	case "withold":
		// withold(place, e): e evaluated in the current state with the location `place` put back to its entry value
		if env.old == nil {
			env.fail("withold() not available here")
		}
		pl := env.evalPlace(e.Args[0])
		if !pl.HasAddr {
			env.fail("withold: first argument is not a location")
		}
		o := *env
		o.cur = env.old
		oldv := o.eval(e.Args[0])
		st2 := env.cur.Clone()
		u.storeType(st2, pl.Addr, pl.Go, oldv.T)
		n := *env
		n.cur = st2
		return n.eval(e.Args[1])
	case "len":
		x := env.eval(e.Args[0])
		if x.Go == nil {
			if x.T.Sort == SBytes {
				return &SVal{T: App(SInt, "blen", x.T)}
			}
			env.fail("len of sort %s", x.T.Sort)
		}
		switch x.Go.Underlying().(type) {
		case *types.Slice:
			return &SVal{T: SLen(x.T)}
		case *types.Map:
			// heap well-formedness: the length of a map is the size of its domain (zero iff empty)
			if mt, ok := x.Go.Underlying().(*types.Map); ok && !env.noAssume {
				free := true
				for _, b := range env.bound {
					if strings.Contains(x.T.S, b.S) {
						free = false
					}
				}
				key := "lenzero:" + x.T.S + "@" + u.comp(env.cur, "ML").S
				if u.wfSeen == nil {
					u.wfSeen = map[string]bool{}
				}
				if free && !u.wfSeen[key] {
					u.wfSeen[key] = true
					md, _, ks, _ := u.mapComps(mt)
					dom := Select(u.comp(env.cur, md), x.T)
					ml := Select(u.comp(env.cur, "ML"), x.T)
					empty := Term{fmt.Sprintf("((as const (Array %s Bool)) false)", ks), ArraySort(ks, SBool)}
					u.assume(True, Implies(Eq(ml, IntLit(0)), Eq(dom, empty)))
				}
			}
			return &SVal{T: Select(u.comp(env.cur, "ML"), x.T)}
		case *types.Basic:
			return &SVal{T: App(SInt, "str_len", x.T)}
		}
		env.fail("len of %s", x.Go)
	case "cap":
		x := env.eval(e.Args[0])
		return &SVal{T: SCap(x.T)}
	case "bytes":
		x := env.eval(e.Args[0])
		if x.T.Sort != SSlice {
			env.fail("bytes() of non-slice")
		}
		if env.noAssume {
			E := u.comp(env.cur, ecomp(SInt))
			return &SVal{T: App(SBytes, "view", Select(E, SArr(x.T)), SOff(x.T), SLen(x.T))}
		}
		return &SVal{T: u.bytesOfBound(env.cur, x.T, env.bound)}
	case "strbytes":
		x := env.eval(e.Args[0])
		return &SVal{T: App(SBytes, "bytes_of_str", x.T)}
	case "bigval":
		x := env.eval(e.Args[0])
		return &SVal{T: Select(u.comp(env.cur, "BIG"), x.T)}
	case "fresh":
		x := env.eval(e.Args[0])
		a0 := u.comp(env.old, "alloc")
		return &SVal{T: Ge(env.objOf(x), a0), Go: boolT}
	case "allocated":
		x := env.eval(e.Args[0])
		a0 := u.comp(env.cur, "alloc")
		return &SVal{T: Lt(env.objOf(x), a0), Go: boolT}
	case "objid":
		x := env.eval(e.Args[0])
		return &SVal{T: env.objOf(x)}
	case "Is":
		a := env.coerce(env.eval(e.Args[0]), SAny)
		b := env.coerce(env.eval(e.Args[1]), SAny)
		w1 := App(SAny, "wraps", a.T)
		w2 := App(SAny, "wraps", w1)
		return &SVal{T: And(Neq(b.T, AnyNil), Or(Eq(a.T, b.T), Eq(w1, b.T), Eq(w2, b.T))), Go: boolT}
	case "ite":
		c := env.evalB(e.Args[0])
		a, b := env.eval(e.Args[1]), env.eval(e.Args[2])
		a, b = env.unify(a, b)
		return &SVal{T: Ite(c, a.T, b.T), Go: a.Go}
	case "arr": // arr(e1,...,en): CV array
		l := Term{"cvnil", SCVL}
		for i := len(e.Args) - 1; i >= 0; i-- {
			x := env.eval(e.Args[i])
			if x.T.Sort != SCV {
				env.fail("arr() element %d is not a CV", i)
			}
			l = App(SCVL, "cvcons", x.T, l)
		}
		return &SVal{T: App(SCV, "cv_arr", l)}
	case "mapdom":
		x := env.eval(e.Args[0])
		mt, ok := x.Go.Underlying().(*types.Map)
		if !ok {
			env.fail("mapdom of non-map")
		}
		md, _, ks, _ := u.mapComps(mt)
		empty := Term{fmt.Sprintf("((as const (Array %s Bool)) false)", ks), ArraySort(ks, SBool)}
		return &SVal{T: Ite(Eq(x.T, IntLit(0)), empty, Select(u.comp(env.cur, md), x.T))}
	case "mapval":
		x := env.eval(e.Args[0])
		mt, ok := x.Go.Underlying().(*types.Map)
		if !ok {
			env.fail("mapval of non-map")
		}
		_, mv, _, _ := u.mapComps(mt)
		return &SVal{T: Select(u.comp(env.cur, mv), x.T)}
	case "data":
		return &SVal{T: u.dataSnapshot(env.cur)}
	case "cvof":
		x := env.eval(e.Args[0])
		a := env.coerce(x, SAny)
		return &SVal{T: u.cvOfAny(env.cur, env.pc, a.T, 3)}
	case "orderbits":
		// bit length of the order N of an elliptic.Curve value (as read through Params() in the current state)
		x := env.coerce(env.eval(e.Args[0]), SAny)
		p := App(SAddr, "curve_params", x.T)
		HP, B := u.comp(env.cur, hcomp(SAddr)), u.comp(env.cur, "BIG")
		return &SVal{T: App(SInt, "bitlen", Select(B, Select(HP, FieldAddrT(p, 1))))}
	case "encopts", "decopts":
		// the options a cbor mode value was built from (modes are a function of their options, and determine them)
		x := env.coerce(env.eval(e.Args[0]), SAny)
		tn := "EncOptions"
		fnm := "enc_opts_of"
		if e.Name == "decopts" {
			tn, fnm = "DecOptions", "dec_opts_of"
		}
		rt := u.eng.resolveType(&STypeExpr{Kind: "qual", Pkg: "cbor", Name: tn})
		u.eng.declareFun(fnm, []Sort{SAny}, rt.Sort)
		return &SVal{T: App(rt.Sort, fnm, x.T), Go: rt.Go}
	case "anybytes":
		// the []byte view of an interface value whose dynamic type is a byte slice (reflect.Value.Bytes)
		x := env.coerce(env.eval(e.Args[0]), SAny)
		return &SVal{T: App(SSlice, "any_bytesval", x.T), Go: types.NewSlice(types.Typ[types.Uint8])}
	case "anyelems":
		// the element store of all []any slices in the current state (to be passed to state-independent spec functions)
		return &SVal{T: u.comp(env.cur, ecomp(SAny))}
	case "addrelems":
		// the element store of all slices of pointers in the current state
		return &SVal{T: u.comp(env.cur, ecomp(SAddr))}
	case "ptrat":
		// ptrat(EP, s, i): element i of the pointer slice s in element store EP (an address; compare with nil)
		ep := env.eval(e.Args[0])
		sl := env.eval(e.Args[1])
		i := env.evalI(e.Args[2])
		if sl.T.Sort != SSlice {
			env.fail("ptrat: second argument must be a slice")
		}
		return &SVal{T: Select(Select(ep.T, SArr(sl.T)), ElemIdx(SOff(sl.T), i))}
	case "elemat":
		// elemat(EA, s, i): element i of the []any slice s in element store EA
		ea := env.eval(e.Args[0])
		sl := env.eval(e.Args[1])
		i := env.evalI(e.Args[2])
		if sl.T.Sort != SSlice {
			env.fail("elemat: second argument must be a slice")
		}
		return &SVal{T: Select(Select(ea.T, SArr(sl.T)), ElemIdx(SOff(sl.T), i)), Go: types.Universe.Lookup("any").Type()}
	case "asmap":
		// conversion of a named map type (ProtectedHeader, UnprotectedHeader, CWTClaims) to map[any]any
		x := env.eval(e.Args[0])
		if _, ok := x.Go.Underlying().(*types.Map); !ok {
			env.fail("asmap of non-map")
		}
		anyT := types.Universe.Lookup("any").Type()
		return &SVal{T: x.T, Go: types.NewMap(anyT, anyT)}
	case "ecpub":
		x := env.eval(e.Args[0])
		return &SVal{T: u.ecdsaPubAbs(env.cur, x.T)}
	case "ecpriv":
		x := env.eval(e.Args[0])
		return &SVal{T: u.ecdsaPrivAbs(env.cur, x.T)}
	case "rsapub":
		x := env.eval(e.Args[0])
		return &SVal{T: u.rsaPubAbs(env.cur, x.T)}
	case "epoch":
		return &SVal{T: u.comp(env.cur, "epoch")}
	case "vepoch":
		return &SVal{T: u.comp(env.cur, "vepoch")}
	case "typeid":
		x := env.eval(e.Args[0])
		return &SVal{T: App(SInt, "any_typeid", x.T)}
	}
	// Go type conversion e.g. int64(5), Algorithm(x), any(x)
	if len(e.Args) == 1 {
		if rt, ok := env.tryType(e.Name); ok && rt.Go != nil {
			x := env.eval(e.Args[0])
			if _, isIface := rt.Go.Underlying().(*types.Interface); isIface {
				return env.coerceGo(x, rt.Go)
			}
			if x.T.Sort == rt.Sort {
				return &SVal{T: x.T, Go: rt.Go}
			}
			env.fail("cannot convert sort %s to %s", x.T.Sort, rt.Go)
		}
	}
	if sf, ok := u.eng.specs.Specs[e.Name]; ok {
		return env.callSpec(sf, e.Args)
	}
	if pf, ok := preludeFns[e.Name]; ok {
		if len(pf.args) != len(e.Args) {
			env.fail("%s expects %d arguments", e.Name, len(pf.args))
		}
		args := make([]Term, len(e.Args))
		for i, a := range e.Args {
			v := env.eval(a)
			v = env.coerce(v, pf.args[i])
			args[i] = v.T
		}
		return &SVal{T: App(pf.ret, e.Name, args...)}
	}
	env.fail("unknown function %s in spec", e.Name)
	return nil
}

func (env *SEnv) tryType(name string) (rt RType, ok bool) {
	defer func() {
		if r := recover(); r != nil {
			ok = false
		}
	}()
	switch name {
	case "Int", "Bool", "Bytes", "CV", "CVList", "AnySet", "AnyMap", "AnyElems", "AddrElems", "Data":
		return RType{}, false
	}
	rt = env.u.eng.resolveType(&STypeExpr{Kind: "name", Name: name})
	return rt, true
}

func (env *SEnv) objOf(x *SVal) Term {
	switch x.T.Sort {
	case SAddr:
		return App(SInt, "aobj", x.T)
	case SSlice:
		return SArr(x.T)
	case SInt:
		return x.T
	case SAny:
		return App(SInt, "any_obj", x.T)
	}
	env.fail("objid of sort %s", x.T.Sort)
	return Term{}
}

func (env *SEnv) callSpec(sf *SpecFn, args []*SExpr) *SVal {
	u := env.u
	if len(args) != len(sf.Params) {
		env.fail("spec %s expects %d arguments, got %d", sf.Name, len(sf.Params), len(args))
	}
	ret := u.eng.resolveType(sf.Ret)
	vals := make([]*SVal, len(args))
	for i, a := range args {
		pt := u.eng.resolveType(sf.Params[i].Type)
		if pt.Go != nil {
			if _, isStruct := pt.Go.Underlying().(*types.Struct); isStruct {
				// struct parameters are passed as places when possible (fields are loaded on demand)
				if pl := env.evalPlace(a); pl.HasAddr && pl.T.S == "" && pl.Go != nil && types.Identical(pl.Go, pt.Go) {
					vals[i] = pl
					continue
				}
			}
		}
		v := env.eval(a)
		if pt.Go != nil {
			v = env.coerceGo(v, pt.Go)
			v = &SVal{T: v.T, Go: pt.Go}
		} else {
			v = env.coerce(v, pt.Sort)
		}
		vals[i] = v
	}
	if sf.Body == nil || u.eng.pureSpec(sf) {
		ts := make([]Term, len(vals))
		for i, v := range vals {
			ts[i] = env.value(v).T
		}
		return &SVal{T: App(ret.Sort, "spec_"+sf.Name, ts...), Go: ret.Go}
	}
	if env.depth > 20 {
		env.fail("spec function expansion too deep (recursive?) at %s", sf.Name)
	}
	n := &SEnv{u: u, cur: env.cur, old: env.old, vars: map[string]*SVal{}, depth: env.depth + 1, fn: env.fn, pc: env.pc, noAssume: env.noAssume, bound: env.bound}
	for i, p := range sf.Params {
		n.vars[p.Name] = vals[i]
	}
	r := n.eval(sf.Body)
	if ret.Go != nil {
		r = n.coerceGo(r, ret.Go)
		return &SVal{T: r.T, Go: ret.Go}
	}
	r = n.coerce(r, ret.Sort)
	return &SVal{T: r.T}
}

// declareSpecFns emits declarations for uninterpreted spec functions.
func (e *Engine) specDecls() string {
	var names []string
	for n, sf := range e.specs.Specs {
		if sf.Body == nil {
			names = append(names, n)
		}
	}
	sort.Strings(names)
	var sb strings.Builder
	for _, n := range names {
		sf := e.specs.Specs[n]
		var as []string
		for _, p := range sf.Params {
			as = append(as, string(e.resolveType(p.Type).Sort))
		}
		fmt.Fprintf(&sb, "(declare-fun spec_%s (%s) %s)\n", n, strings.Join(as, " "), e.resolveType(sf.Ret).Sort)
	}
	return sb.String()
}

// pureSpec reports whether a defined spec function is state-independent (its
// body reads no heap component). Such functions are emitted once as SMT
// define-funs instead of being expanded at every use.
func (e *Engine) pureSpec(sf *SpecFn) bool {
	if sf.Body == nil {
		return false
	}
	if p, ok := e.pureMemo[sf.Name]; ok {
		return p
	}
	if e.pureMemo == nil {
		e.pureMemo = map[string]bool{}
	}
	e.pureMemo[sf.Name] = false // recursion guard
	pure := false
	func() {
		defer func() {
			if r := recover(); r != nil {
				if _, ok := r.(evalErr); ok {
					pure = false
					return
				}
				panic(r)
			}
		}()
		u := &Unit{eng: e, name: "pure", init0: map[string]Term{}, usedExterns: map[string]bool{}, usedContracts: map[string]bool{}}
		st := &State{pc: True, comps: map[string]Term{}}
		env := &SEnv{u: u, cur: st, old: st, vars: map[string]*SVal{}, fn: "spec " + sf.Name, pc: True, noAssume: true}
		var params []string
		for _, p := range sf.Params {
			pt := e.resolveType(p.Type)
			if pt.Go != nil {
				if _, isStruct := pt.Go.Underlying().(*types.Struct); isStruct {
					panic(evalErr("struct parameter"))
				}
			}
			name := sym("a!" + p.Name)
			env.vars[p.Name] = &SVal{T: Term{name, pt.Sort}, Go: pt.Go}
			params = append(params, fmt.Sprintf("(%s %s)", name, pt.Sort))
		}
		ret := e.resolveType(sf.Ret)
		r := env.eval(sf.Body)
		if ret.Go != nil {
			r = env.coerceGo(r, ret.Go)
		} else {
			r = env.coerce(r, ret.Sort)
		}
		if len(u.init0) > 0 || len(u.cmds) > 0 || len(st.comps) > 0 {
			return
		}
		pure = true
		e.pureDefs = append(e.pureDefs, fmt.Sprintf("(define-fun spec_%s (%s) %s %s)", sf.Name, strings.Join(params, " "), ret.Sort, r.T.S))
	}()
	e.pureMemo[sf.Name] = pure
	return pure
}
