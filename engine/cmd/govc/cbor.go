package main

import (
	"fmt"
	"go/types"
	"strings"

	"golang.org/x/tools/go/ssa"
)

// ---- data snapshot: the heap components an encoding may depend on ----

func (u *Unit) dataSnapshot(st *State) Term {
	args := make([]Term, len(u.eng.dataComps)+1)
	args[0] = u.comp(st, "alloc")
	for i, c := range u.eng.dataComps {
		args[i+1] = u.comp(st, c)
	}
	// one name per distinct snapshot keeps queries small
	return u.define("data", App("Data", "mk-data", args...))
}

func (e *Engine) dataDecl() string {
	var sb strings.Builder
	sb.WriteString("(declare-datatypes ((Data 0)) (((mk-data (data_alloc Int)")
	for i, c := range e.dataComps {
		fmt.Fprintf(&sb, " (data_f%d %s)", i, compSort(c))
	}
	sb.WriteString("))))\n")
	// data_ext d0 d1: d1 extends d0 -- every object allocated in d0 has the same contents in d1,
	// except the struct cells of objects hosting a top-level message (Sign1Message, SignMessage):
	// no header value's encoding depends on those (assumption: no cyclic message structures)
	sb.WriteString("(declare-fun is_msg_obj (Int) Bool)\n")
	sb.WriteString("(define-fun data_ext ((d0 Data) (d1 Data)) Bool (and (<= (data_alloc d0) (data_alloc d1))")
	for i, c := range e.dataComps {
		f := fmt.Sprintf("data_f%d", i)
		if strings.HasPrefix(c, "H:") {
			fmt.Fprintf(&sb, " (forall ((a Addr)) (! (=> (and (< (aobj a) (data_alloc d0)) (not (is_msg_obj (aobj a)))) (= (select (%s d1) a) (select (%s d0) a))) :pattern ((select (%s d1) a))))", f, f, f)
		} else {
			fmt.Fprintf(&sb, " (forall ((i Int)) (! (=> (< i (data_alloc d0)) (= (select (%s d1) i) (select (%s d0) i))) :pattern ((select (%s d1) i))))", f, f, f)
		}
	}
	sb.WriteString("))\n")
	return sb.String()
}

// cvOfAny returns the CBOR value denoted by interface value a in state st:
// cv_of_any(a, data), an uninterpreted function of the value and the data
// snapshot, constrained by the per-constructor axioms of cvAxioms (one
// non-recursive axiom per dynamic type the encoder is handed in this package).
func (u *Unit) cvOfAny(st *State, pc Term, a Term, depth int) Term {
	return App(SCV, "cv_of_any", a, u.dataSnapshot(st))
}

func (e *Engine) dataSel(comp string, d Term) Term {
	for i, c := range e.dataComps {
		if c == comp {
			return App(compSort(c), fmt.Sprintf("data_f%d", i), d)
		}
	}
	panic("dataSel: no component " + comp)
}

const cvUnroll = 8

// cvAxioms: what the encoder makes of each dynamic type (assumed contract of
// the cbor library, written once; see DESIGN.md section 3).
func (e *Engine) cvAxioms() string {
	var sb strings.Builder
	reg := e.reg
	d := Term{"d", "Data"}
	EI := e.dataSel(ecomp(SInt), d)
	byteView := func(s Term) Term { return App(SBytes, "view", Select(EI, SArr(s)), SOff(s), SLen(s)) }
	sb.WriteString("(assert (forall ((d Data)) (! (= (cv_of_any A_nil d) cv_null) :pattern ((cv_of_any A_nil d)))))\n")
	// frame: the encoding of a value depends only on the objects that existed when the value did
	sb.WriteString("(assert (forall ((a Any) (d0 Data) (d1 Data)) (! (=> (and (any_ok a (data_alloc d0)) (data_ext d0 d1)) (= (cv_of_any a d0) (cv_of_any a d1))) :pattern ((cv_of_any a d0) (cv_of_any a d1)))))\n")
	// leaf value of a field of static type ft holding term fv
	var typed func(ft types.Type, fv Term) Term
	typed = func(ft types.Type, fv Term) Term {
		if _, isIface := ft.Underlying().(*types.Interface); isIface {
			return App(SCV, "cv_of_any", fv, d)
		}
		c := reg.AnyConOf(ft)
		if c == nil {
			return App(SCV, "cv_of_any", App(SAny, "A_other", IntLit(tidOpaque), IntLit(0)), d)
		}
		return App(SCV, "cv_of_any", App(SAny, c.Con, fv), d)
	}
	for _, c := range reg.sortedAnyCons() {
		p := Term{"p", c.Payload}
		var v Term
		switch ut := c.T.Underlying().(type) {
		case *types.Basic:
			switch {
			case ut.Info()&types.IsString != 0:
				v = App(SCV, "cv_tstr", p)
			case ut.Info()&types.IsInteger != 0:
				v = App(SCV, "cv_int", p)
			case ut.Info()&types.IsBoolean != 0:
				v = App(SCV, "cv_bool", p)
			}
		case *types.Slice:
			if b, ok := ut.Elem().Underlying().(*types.Basic); ok && b.Kind() == types.Uint8 {
				if c.Key == "github.com/fxamacker/cbor/v2.RawMessage" {
					v = Ite(Eq(SLen(p), IntLit(0)), Term{"cv_null", SCV}, App(SCV, "cv_raw", byteView(p)))
				} else if _, named := c.T.(*types.Named); !named || c.Key == "github.com/veraison/go-cose.byteString" {
					v = Ite(Eq(SArr(p), IntLit(0)), Term{"cv_null", SCV}, App(SCV, "cv_bstr", byteView(p)))
				}
			} else if _, isIface := ut.Elem().Underlying().(*types.Interface); isIface {
				EA := e.dataSel(ecomp(SAny), d)
				arr := Select(EA, SArr(p))
				l := App(SCVL, "cv_list_tail", arr, Add(SOff(p), IntLit(cvUnroll)), Sub(SLen(p), IntLit(cvUnroll)), d)
				for k := cvUnroll - 1; k >= 0; k-- {
					el := Select(arr, Add(SOff(p), IntLit(int64(k))))
					l = Ite(Le(SLen(p), IntLit(int64(k))), Term{"cvnil", SCVL}, App(SCVL, "cvcons", App(SCV, "cv_of_any", el, d), l))
				}
				v = Ite(Eq(SArr(p), IntLit(0)), Term{"cv_null", SCV}, App(SCV, "cv_arr", l))
			} else if c.Key == "[]github.com/fxamacker/cbor/v2.RawMessage" {
				ES := e.dataSel(ecomp(SSlice), d)
				arr := Select(ES, SArr(p))
				l := App(SCVL, "cv_rawlist", arr, Add(SOff(p), IntLit(4)), Sub(SLen(p), IntLit(4)), EI)
				for k := 3; k >= 0; k-- {
					el := Select(arr, Add(SOff(p), IntLit(int64(k))))
					ev := Ite(Eq(SLen(el), IntLit(0)), Term{"cv_null", SCV}, App(SCV, "cv_raw", byteView(el)))
					l = Ite(Le(SLen(p), IntLit(int64(k))), Term{"cvnil", SCVL}, App(SCVL, "cvcons", ev, l))
				}
				v = Ite(Eq(SArr(p), IntLit(0)), Term{"cv_null", SCV}, App(SCV, "cv_arr", l))
			}
		case *types.Struct:
			si := reg.Struct(c.T)
			switch c.Key {
			case "github.com/fxamacker/cbor/v2.Tag":
				num := App(SInt, si.Fields[0].Sel, p)
				content := App(SAny, si.Fields[1].Sel, p)
				// an uninitialised Tag{0, nil} encodes as null
				v = Ite(And(Eq(num, IntLit(0)), Eq(content, AnyNil)), Term{"cv_null", SCV}, App(SCV, "cv_tag", num, App(SCV, "cv_of_any", content, d)))
			case "github.com/veraison/go-cose.sign1Message", "github.com/veraison/go-cose.signature", "github.com/veraison/go-cose.signMessage":
				// toarray structs: field 0 is the blank marker
				l := Term{"cvnil", SCVL}
				for i := len(si.Fields) - 1; i >= 1; i-- {
					f := si.Fields[i]
					l = App(SCVL, "cvcons", typed(ut.Field(i).Type(), App(f.Sort, f.Sel, p)), l)
				}
				v = App(SCV, "cv_arr", l)
			}
		}
		if v.S == "" {
			continue
		}
		lhs := App(SCV, "cv_of_any", App(SAny, c.Con, p), d)
		fmt.Fprintf(&sb, "(assert (forall ((p %s) (d Data)) (! (= %s %s) :pattern (%s))))\n", c.Payload, lhs.S, v.S, lhs.S)
	}
	return sb.String()
}

// ---- EncMode.Marshal ----

// Values whose dynamic type has a MarshalCBOR method in the repository are
// encoded by calling that method (contract or body), as the library does.
func (u *Unit) repoMarshaler(t types.Type) *ssa.Function {
	ms := u.eng.prog.MethodSets.MethodSet(t)
	sel := ms.Lookup(nil, "MarshalCBOR")
	if sel == nil {
		sel = ms.Lookup(u.eng.pkg.Pkg, "MarshalCBOR")
	}
	if sel == nil {
		return nil
	}
	fn := u.eng.prog.MethodValue(sel)
	if fn == nil || fn.Pkg != u.eng.pkg && (fn.Synthetic == "" || !strings.Contains(fn.String(), "go-cose")) {
		return nil
	}
	return fn
}

func (u *Unit) cborMarshal(fr *Frame, st *State, x *ssa.Call, recv Term, args []*Val) *State {
	v := args[0].T
	// static dynamic type, if the argument is a MakeInterface
	if mi, ok := x.Call.Args[0].(*ssa.MakeInterface); ok {
		if fn := u.repoMarshaler(mi.X.Type()); fn != nil {
			// the library calls v.MarshalCBOR() and validates the result
			u.comment("Marshal dispatches to " + fnName(fn))
			inner := &ssa.Call{}
			_ = inner
			res, st2 := u.callMethodForLibrary(fr, st, x, fn, []*Val{u.operand(fr, mi.X)})
			if st2 == nil {
				return nil
			}
			fr.vals[x] = &Val{Tuple: res}
			return st2
		}
	}
	cv := u.cvOfAny(st, st.pc, v, 3)
	cv = u.define("cv", cv)
	ok := App(SBool, "enc_ok", cv)
	out := App(SBytes, "enc", cv)
	id := u.newObj(st)
	E := u.comp(st, ecomp(SInt))
	u.setComp(st, ecomp(SInt), Store(E, id, App(ArraySort(SInt, SInt), "wr", Select(E, id), IntLit(0), out)))
	ln := u.define("enclen", App(SInt, "blen", out))
	capv := u.fresh("enccap", SInt)
	u.assume(st.pc, And(Ge(capv, ln), Ge(ln, IntLit(1))))
	eid := u.newObj(st)
	res := u.define("encres", Ite(ok, MkSlice(id, IntLit(0), ln, capv), NilSlice))
	errv := u.define("encerr", Ite(ok, AnyNil, App(SAny, "A_other", IntLit(tidWrapError), eid)))
	fr.vals[x] = &Val{Tuple: []*Val{{T: res}, {T: errv}}}
	return st
}

// callMethodForLibrary calls a repository method on behalf of the library
// (Marshal -> MarshalCBOR): contract if it has one, else inline.
func (u *Unit) callMethodForLibrary(fr *Frame, st *State, x *ssa.Call, fn *ssa.Function, args []*Val) ([]*Val, *State) {
	if c := u.contractFor(fn); c != nil {
		u.usedContracts[fnName(fn)] = true
		return u.applyContract(fr, st, x, fn, c, args, false)
	}
	depth := 0
	for f := fr; f != nil; f = f.caller {
		depth++
	}
	if depth > maxInlineDepth {
		panic("inlining too deep at " + fnName(fn))
	}
	nf := &Frame{fn: fn, vals: map[ssa.Value]*Val{}, caller: fr, depth: fr.depth + 1, u: u, params: args, entry: st}
	u.comment("inline (library dispatch) " + fnName(fn))
	r := u.execFunction(nf, st.Clone())
	if r.st == nil {
		return nil, nil
	}
	return r.vals, r.st.Clone()
}

// ---- DecMode.Wellformed ----

func (u *Unit) cborWellformed(fr *Frame, st *State, x *ssa.Call, recv Term, args []*Val) *State {
	b := u.bytesOf(st, args[0].T)
	err := u.define("wferr", App(SAny, "wf_err", recv, b))
	u.assume(st.pc, App(SBool, "any_ok", err, u.comp(st, "alloc")))
	// nil => at least one byte; for major type 2 the head and length agree
	u.assume(st.pc, Implies(Eq(err, AnyNil), And(Ge(App(SInt, "blen", b), IntLit(1)), App(SBool, "item_wf", b))))
	u.assume(st.pc, Implies(Eq(App(SInt, "div", App(SInt, "bat", b, IntLit(0)), IntLit(32)), IntLit(2)),
		Iff(Eq(err, AnyNil), And(Ge(App(SInt, "blen", b), IntLit(1)), App(SBool, "bstr_wf", b)))))
	fr.vals[x] = &Val{T: err}
	return st
}

// ---- DecMode.Unmarshal ----

func (u *Unit) cborUnmarshal(fr *Frame, st *State, x *ssa.Call, recv Term, args []*Val) *State {
	data := args[0].T
	b := u.bytesOf(st, data)
	mi, ok := x.Call.Args[1].(*ssa.MakeInterface)
	if !ok {
		panic("Unmarshal destination is not a MakeInterface in " + fnName(fr.fn))
	}
	pt, ok := mi.X.Type().Underlying().(*types.Pointer)
	if !ok {
		panic("Unmarshal destination is not a pointer")
	}
	dst := u.operand(fr, mi.X).T
	key := typeKey(pt.Elem())
	u.reqNonNil(fr, st, x, dst)
	m, ok := decodeModels[key]
	if !ok {
		// generic: destination havocked, error arbitrary
		u.eng.warn("cbor Unmarshal into " + key + ": generic model (destination arbitrary on success)")
		err := u.define("decerr", App(SAny, "dec_err", recv, b, IntLit(int64(len(key)))))
		a1 := u.fresh("alloc", SInt)
		u.assume(st.pc, Ge(a1, u.comp(st, "alloc")))
		st.comps["alloc"] = a1
		pre := st.Clone()
		u.havocType(st, dst, pt.Elem())
		// on error the destination is unchanged? not guaranteed by the library; leave arbitrary
		_ = pre
		u.assume(st.pc, App(SBool, "any_ok", err, a1))
		fr.vals[x] = &Val{T: err}
		return st
	}
	return m(u, fr, st, x, recv, data, b, dst, pt.Elem())
}

type decodeModel func(u *Unit, fr *Frame, st *State, x *ssa.Call, mode, data, b, dst Term, elem types.Type) *State

var decodeModels = map[string]decodeModel{}

func init() {
	// *[]byte: bstr (or array of small ints / null / undefined, which the repo excludes before calling)
	decodeModels["[]byte"] = func(u *Unit, fr *Frame, st *State, x *ssa.Call, mode, data, b, dst Term, elem types.Type) *State {
		err := u.define("decerr", App(SAny, "dec_bytes_err", mode, b))
		isB := Eq(App(SInt, "div", App(SInt, "bat", b, IntLit(0)), IntLit(32)), IntLit(2))
		// completeness and soundness for major type 2: accepted iff a single well-formed definite bstr
		u.assume(st.pc, Implies(And(Ge(App(SInt, "blen", b), IntLit(1)), isB), Iff(Eq(err, AnyNil), App(SBool, "bstr_wf", b))))
		u.assume(st.pc, Implies(Eq(err, AnyNil), Ge(App(SInt, "blen", b), IntLit(1))))
		u.assume(st.pc, App(SBool, "any_ok", err, u.comp(st, "alloc")))
		id := u.newObj(st)
		content := App(SBytes, "bstr_content", b)
		E := u.comp(st, ecomp(SInt))
		ln := App(SInt, "blen", content)
		// a zero-length byte string decodes to an empty non-nil slice
		newv := u.fresh("decbytes", SSlice)
		u.assume(st.pc, Implies(isB, Eq(newv, MkSlice(id, IntLit(0), ln, ln))))
		u.assume(st.pc, App(SBool, "slice_ok", newv, u.comp(st, "alloc")))
		okc := Eq(err, AnyNil)
		u.setComp(st, ecomp(SInt), Ite(okc, Store(E, id, App(ArraySort(SInt, SInt), "wr", Select(E, id), IntLit(0), content)), E))
		H := u.comp(st, hcomp(SSlice))
		u.setComp(st, hcomp(SSlice), Ite(okc, Store(H, dst, newv), H))
		fr.vals[x] = &Val{T: err}
		return st
	}
	decodeModels["[]uint8"] = decodeModels["[]byte"]
}
