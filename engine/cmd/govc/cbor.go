package main

import (
	"fmt"
	"go/types"
	"strings"

	"golang.org/x/tools/go/ssa"
)

// ---- data snapshot: the heap components an encoding may depend on ----

func (u *Unit) dataSnapshot(st *State) Term {
	args := make([]Term, len(u.eng.dataComps)+1)
	args[0] = u.comp(st, "alloc")
	for i, c := range u.eng.dataComps {
		args[i+1] = u.comp(st, c)
	}
	// one name per distinct snapshot keeps queries small
	return u.define("data", App("Data", "mk-data", args...))
}

func (e *Engine) dataDecl() string {
	var sb strings.Builder
	sb.WriteString("(declare-datatypes ((Data 0)) (((mk-data (data_alloc Int)")
	for i, c := range e.dataComps {
		fmt.Fprintf(&sb, " (data_f%d %s)", i, compSort(c))
	}
	sb.WriteString("))))\n")
	// data_ext d0 d1: d1 extends d0 -- every object allocated in d0 has the same contents in d1,
	// except the struct cells of objects hosting a top-level message (Sign1Message, SignMessage):
	// no header value's encoding depends on those (assumption: no cyclic message structures)
	sb.WriteString("(declare-fun is_msg_obj (Int) Bool)\n")
	sb.WriteString("(define-fun data_ext ((d0 Data) (d1 Data)) Bool (and (<= (data_alloc d0) (data_alloc d1))")
	for i, c := range e.dataComps {
		f := fmt.Sprintf("data_f%d", i)
		if strings.HasPrefix(c, "H:") {
			fmt.Fprintf(&sb, " (forall ((a Addr)) (! (=> (and (< (aobj a) (data_alloc d0)) (not (is_msg_obj (aobj a)))) (= (select (%s d1) a) (select (%s d0) a))) :pattern ((select (%s d1) a))))", f, f, f)
		} else {
			fmt.Fprintf(&sb, " (forall ((i Int)) (! (=> (< i (data_alloc d0)) (= (select (%s d1) i) (select (%s d0) i))) :pattern ((select (%s d1) i))))", f, f, f)
		}
	}
	sb.WriteString("))\n")
	return sb.String()
}

// cvOfAny returns the CBOR value denoted by interface value a in state st:
// cv_of_any(a, data), an uninterpreted function of the value and the data
// snapshot, constrained by the per-constructor axioms of cvAxioms (one
// non-recursive axiom per dynamic type the encoder is handed in this package).
func (u *Unit) cvOfAny(st *State, pc Term, a Term, depth int) Term {
	return App(SCV, "cv_of_any", a, u.dataSnapshot(st))
}

func (e *Engine) dataSel(comp string, d Term) Term {
	for i, c := range e.dataComps {
		if c == comp {
			return App(compSort(c), fmt.Sprintf("data_f%d", i), d)
		}
	}
	panic("dataSel: no component " + comp)
}

const cvUnroll = 8

// cvAxioms: what the encoder makes of each dynamic type (assumed contract of
// the cbor library, written once; see DESIGN.md section 3).
func (e *Engine) cvAxioms() string {
	var sb strings.Builder
	reg := e.reg
	d := Term{"d", "Data"}
	EI := e.dataSel(ecomp(SInt), d)
	byteView := func(s Term) Term { return App(SBytes, "view", Select(EI, SArr(s)), SOff(s), SLen(s)) }
	sb.WriteString("(assert (forall ((d Data)) (! (= (cv_of_any A_nil d) cv_null) :pattern ((cv_of_any A_nil d)))))\n")
	// frame: the encoding of a value depends only on the objects that existed when the value did
	sb.WriteString("(assert (forall ((a Any) (d0 Data) (d1 Data)) (! (=> (and (any_ok a (data_alloc d0)) (data_ext d0 d1)) (= (cv_of_any a d0) (cv_of_any a d1))) :pattern ((cv_of_any a d0) (cv_of_any a d1)))))\n")
	// leaf value of a field of static type ft holding term fv
	var typed func(ft types.Type, fv Term) Term
	typed = func(ft types.Type, fv Term) Term {
		if _, isIface := ft.Underlying().(*types.Interface); isIface {
			return App(SCV, "cv_of_any", fv, d)
		}
		c := reg.AnyConOf(ft)
		if c == nil {
			return App(SCV, "cv_of_any", App(SAny, "A_other", IntLit(tidOpaque), IntLit(0)), d)
		}
		return App(SCV, "cv_of_any", App(SAny, c.Con, fv), d)
	}
	for _, c := range reg.sortedAnyCons() {
		p := Term{"p", c.Payload}
		var v Term
		switch ut := c.T.Underlying().(type) {
		case *types.Basic:
			switch {
			case ut.Info()&types.IsString != 0:
				v = App(SCV, "cv_tstr", p)
			case ut.Info()&types.IsInteger != 0:
				v = App(SCV, "cv_int", p)
			case ut.Info()&types.IsBoolean != 0:
				v = App(SCV, "cv_bool", p)
			}
		case *types.Slice:
			if b, ok := ut.Elem().Underlying().(*types.Basic); ok && b.Kind() == types.Uint8 {
				if c.Key == "github.com/fxamacker/cbor/v2.RawMessage" {
					v = Ite(Eq(SLen(p), IntLit(0)), Term{"cv_null", SCV}, App(SCV, "cv_raw", byteView(p)))
				} else if _, named := c.T.(*types.Named); !named || c.Key == "github.com/veraison/go-cose.byteString" {
					v = Ite(Eq(SArr(p), IntLit(0)), Term{"cv_null", SCV}, App(SCV, "cv_bstr", byteView(p)))
				}
			} else if _, isIface := ut.Elem().Underlying().(*types.Interface); isIface {
				EA := e.dataSel(ecomp(SAny), d)
				arr := Select(EA, SArr(p))
				l := App(SCVL, "cv_list_tail", arr, Add(SOff(p), IntLit(cvUnroll)), Sub(SLen(p), IntLit(cvUnroll)), d)
				for k := cvUnroll - 1; k >= 0; k-- {
					el := Select(arr, Add(SOff(p), IntLit(int64(k))))
					l = Ite(Le(SLen(p), IntLit(int64(k))), Term{"cvnil", SCVL}, App(SCVL, "cvcons", App(SCV, "cv_of_any", el, d), l))
				}
				v = Ite(Eq(SArr(p), IntLit(0)), Term{"cv_null", SCV}, App(SCV, "cv_arr", l))
			} else if c.Key == "[]github.com/fxamacker/cbor/v2.RawMessage" {
				ES := e.dataSel(ecomp(SSlice), d)
				arr := Select(ES, SArr(p))
				l := App(SCVL, "cv_rawlist", arr, Add(SOff(p), IntLit(4)), Sub(SLen(p), IntLit(4)), EI)
				for k := 3; k >= 0; k-- {
					el := Select(arr, Add(SOff(p), IntLit(int64(k))))
					ev := Ite(Eq(SLen(el), IntLit(0)), Term{"cv_null", SCV}, App(SCV, "cv_raw", byteView(el)))
					l = Ite(Le(SLen(p), IntLit(int64(k))), Term{"cvnil", SCVL}, App(SCVL, "cvcons", ev, l))
				}
				v = Ite(Eq(SArr(p), IntLit(0)), Term{"cv_null", SCV}, App(SCV, "cv_arr", l))
			}
		case *types.Struct:
			si := reg.Struct(c.T)
			switch c.Key {
			case "github.com/fxamacker/cbor/v2.Tag":
				num := App(SInt, si.Fields[0].Sel, p)
				content := App(SAny, si.Fields[1].Sel, p)
				// an uninitialised Tag{0, nil} encodes as null
				v = Ite(And(Eq(num, IntLit(0)), Eq(content, AnyNil)), Term{"cv_null", SCV}, App(SCV, "cv_tag", num, App(SCV, "cv_of_any", content, d)))
			case "github.com/veraison/go-cose.sign1Message", "github.com/veraison/go-cose.signature", "github.com/veraison/go-cose.signMessage":
				// toarray structs: field 0 is the blank marker
				l := Term{"cvnil", SCVL}
				for i := len(si.Fields) - 1; i >= 1; i-- {
					f := si.Fields[i]
					l = App(SCVL, "cvcons", typed(ut.Field(i).Type(), App(f.Sort, f.Sel, p)), l)
				}
				v = App(SCV, "cv_arr", l)
			}
		}
		if v.S == "" {
			continue
		}
		lhs := App(SCV, "cv_of_any", App(SAny, c.Con, p), d)
		fmt.Fprintf(&sb, "(assert (forall ((p %s) (d Data)) (! (= %s %s) :pattern (%s))))\n", c.Payload, lhs.S, v.S, lhs.S)
	}
	return sb.String()
}

// ---- EncMode.Marshal ----

// Values whose dynamic type has a MarshalCBOR method in the repository are
// encoded by calling that method (contract or body), as the library does.
func (u *Unit) repoMarshaler(t types.Type) *ssa.Function {
	ms := u.eng.prog.MethodSets.MethodSet(t)
	sel := ms.Lookup(nil, "MarshalCBOR")
	if sel == nil {
		sel = ms.Lookup(u.eng.pkg.Pkg, "MarshalCBOR")
	}
	if sel == nil {
		return nil
	}
	fn := u.eng.prog.MethodValue(sel)
	if fn == nil || fn.Pkg != u.eng.pkg && (fn.Synthetic == "" || !strings.Contains(fn.String(), "go-cose")) {
		return nil
	}
	return fn
}

func (u *Unit) cborMarshal(fr *Frame, st *State, x *ssa.Call, recv Term, args []*Val) *State {
	v := args[0].T
	// static dynamic type, if the argument is a MakeInterface
	if mi, ok := x.Call.Args[0].(*ssa.MakeInterface); ok {
		if fn := u.repoMarshaler(mi.X.Type()); fn != nil {
			// the library calls v.MarshalCBOR() and validates the result
			u.comment("Marshal dispatches to " + fnName(fn))
			inner := &ssa.Call{}
			_ = inner
			res, st2 := u.callMethodForLibrary(fr, st, x, fn, []*Val{u.operand(fr, mi.X)})
			if st2 == nil {
				return nil
			}
			fr.vals[x] = &Val{Tuple: res}
			return st2
		}
	}
	cv := u.cvOfAny(st, st.pc, v, 3)
	cv = u.define("cv", cv)
	ok := App(SBool, "enc_ok", cv)
	out := App(SBytes, "enc", cv)
	id := u.newObj(st)
	E := u.comp(st, ecomp(SInt))
	u.setComp(st, ecomp(SInt), Store(E, id, App(ArraySort(SInt, SInt), "wr", Select(E, id), IntLit(0), out)))
	ln := u.define("enclen", App(SInt, "blen", out))
	capv := u.fresh("enccap", SInt)
	u.assume(st.pc, And(Ge(capv, ln), Ge(ln, IntLit(1))))
	eid := u.newObj(st)
	res := u.define("encres", Ite(ok, MkSlice(id, IntLit(0), ln, capv), NilSlice))
	errv := u.define("encerr", Ite(ok, AnyNil, App(SAny, "A_other", IntLit(tidWrapError), eid)))
	fr.vals[x] = &Val{Tuple: []*Val{{T: res}, {T: errv}}}
	return st
}

// callMethodForLibrary calls a repository method on behalf of the library
// (Marshal -> MarshalCBOR): contract if it has one, else inline.
func (u *Unit) callMethodForLibrary(fr *Frame, st *State, x *ssa.Call, fn *ssa.Function, args []*Val) ([]*Val, *State) {
	if c := u.contractFor(fn); c != nil {
		u.usedContracts[fnName(fn)] = true
		return u.applyContract(fr, st, x, fn, c, args, false)
	}
	depth := 0
	for f := fr; f != nil; f = f.caller {
		depth++
	}
	if depth > maxInlineDepth {
		panic("inlining too deep at " + fnName(fn))
	}
	nf := &Frame{fn: fn, vals: map[ssa.Value]*Val{}, caller: fr, depth: fr.depth + 1, u: u, params: args, entry: st}
	u.comment("inline (library dispatch) " + fnName(fn))
	r := u.execFunction(nf, st.Clone())
	if r.st == nil {
		return nil, nil
	}
	return r.vals, r.st.Clone()
}

// ---- DecMode.Wellformed ----

func (u *Unit) cborWellformed(fr *Frame, st *State, x *ssa.Call, recv Term, args []*Val) *State {
	b := u.bytesOf(st, args[0].T)
	err := u.define("wferr", App(SAny, "wf_err", recv, b))
	u.assume(st.pc, App(SBool, "any_ok", err, u.comp(st, "alloc")))
	// nil => at least one byte; for major type 2 the head and length agree
	u.assume(st.pc, Implies(Eq(err, AnyNil), And(Ge(App(SInt, "blen", b), IntLit(1)), App(SBool, "item_wf", b))))
	u.assume(st.pc, Implies(Eq(App(SInt, "div", App(SInt, "bat", b, IntLit(0)), IntLit(32)), IntLit(2)),
		Iff(Eq(err, AnyNil), And(Ge(App(SInt, "blen", b), IntLit(1)), App(SBool, "bstr_wf", b)))))
	fr.vals[x] = &Val{T: err}
	return st
}

// ---- DecMode.Unmarshal ----

const tidDecOther = 900006 // cbor.Tag, big.Int, float values decoded into an interface

func (u *Unit) cborUnmarshal(fr *Frame, st *State, x *ssa.Call, recv Term, args []*Val) *State {
	data := args[0].T
	b := u.bytesOf(st, data)
	var dstV ssa.Value
	switch a := x.Call.Args[1].(type) {
	case *ssa.MakeInterface:
		dstV = a.X
	default:
		panic("Unmarshal destination is not a MakeInterface in " + fnName(fr.fn))
	}
	pt, ok := dstV.Type().Underlying().(*types.Pointer)
	if !ok {
		panic("Unmarshal destination is not a pointer")
	}
	dst := u.operand(fr, dstV).T
	u.reqNonNil(fr, st, x, dst)
	elem := pt.Elem()
	// destination types with an UnmarshalCBOR method in the repository: the library checks that the data is one
	// well-formed item and then hands exactly those bytes to the method
	if fn := u.repoUnmarshaler(elem); fn != nil {
		return u.decodeViaMethod(fr, st, x, recv, data, b, dst, fn)
	}
	key := typeKey(elem)
	if m, ok := decodeModels[key]; ok {
		return m(u, fr, st, x, recv, data, b, dst, elem)
	}
	if stt, ok := elem.Underlying().(*types.Struct); ok && isToArray(stt) {
		return u.decodeToArray(fr, st, x, recv, data, b, dst, elem, stt)
	}
	switch key {
	case "interface{}", "any":
		return u.decodeAny(fr, st, x, recv, b, dst)
	case "map[interface{}]interface{}", "map[any]any":
		return u.decodeMapAny(fr, st, x, recv, b, dst, elem)
	case "map[interface{}]github.com/fxamacker/cbor/v2.RawMessage", "map[any]github.com/fxamacker/cbor/v2.RawMessage":
		return u.decodeMapRaw(fr, st, x, recv, b, dst, elem)
	case "map[github.com/veraison/go-cose.headerLabelValidator]github.com/veraison/go-cose.discardedCBORMessage":
		err := u.define("labelserr", App(SAny, "dec_labels_err", recv, b))
		u.assume(st.pc, App(SBool, "any_ok", err, u.comp(st, "alloc")))
		// the local destination map is never read afterwards; it becomes an arbitrary fresh map
		id := u.newObj(st)
		H := u.comp(st, hcomp(SInt))
		u.setComp(st, hcomp(SInt), Ite(Eq(err, AnyNil), Store(H, dst, id), H))
		fr.vals[x] = &Val{T: err}
		return st
	case "[]*github.com/veraison/go-cose.Countersignature":
		return u.decodePtrList(fr, st, x, recv, b, dst, elem)
	}
	// generic: destination havocked, error arbitrary
	u.eng.warn("cbor Unmarshal into " + key + ": generic model (destination arbitrary on success)")
	err := u.define("decerr", App(SAny, "dec_shape_err", recv, b, u.eng.strLit(key)))
	a1 := u.fresh("alloc", SInt)
	u.assume(st.pc, Ge(a1, u.comp(st, "alloc")))
	st.comps["alloc"] = a1
	u.havocType(st, dst, elem)
	u.assume(st.pc, App(SBool, "any_ok", err, a1))
	fr.vals[x] = &Val{T: err}
	return st
}

func isToArray(st *types.Struct) bool {
	if st.NumFields() == 0 {
		return false
	}
	return st.Field(0).Name() == "_" && strings.Contains(st.Tag(0), "toarray")
}

// repoUnmarshaler: the repository's UnmarshalCBOR for *t, if any.
func (u *Unit) repoUnmarshaler(t types.Type) *ssa.Function {
	ms := u.eng.prog.MethodSets.MethodSet(types.NewPointer(t))
	sel := ms.Lookup(u.eng.pkg.Pkg, "UnmarshalCBOR")
	if sel == nil {
		return nil
	}
	fn := u.eng.prog.MethodValue(sel)
	if fn == nil || fn.Pkg != u.eng.pkg || fn.Synthetic != "" {
		return nil
	}
	// the method must be declared on *t itself (not promoted through embedding)
	return fn
}

func (u *Unit) wfFacts(st *State, mode, b Term) Term {
	err := u.define("wferr", App(SAny, "wf_err", mode, b))
	u.assume(st.pc, App(SBool, "any_ok", err, u.comp(st, "alloc")))
	u.assume(st.pc, Implies(Eq(err, AnyNil), And(Ge(App(SInt, "blen", b), IntLit(1)), App(SBool, "item_wf", b))))
	u.assume(st.pc, Implies(Eq(App(SInt, "div", App(SInt, "bat", b, IntLit(0)), IntLit(32)), IntLit(2)),
		Iff(Eq(err, AnyNil), And(Ge(App(SInt, "blen", b), IntLit(1)), App(SBool, "bstr_wf", b)))))
	return err
}

func (u *Unit) decodeViaMethod(fr *Frame, st *State, x *ssa.Call, mode, data, b, dst Term, fn *ssa.Function) *State {
	u.comment("Unmarshal dispatches to " + fnName(fn) + " after a well-formedness check")
	wf := u.wfFacts(st, mode, b)
	ok := st.Clone()
	ok.pc = u.define("pc", And(st.pc, Eq(wf, AnyNil)))
	bad := st.Clone()
	bad.pc = u.define("pc", And(st.pc, Neq(wf, AnyNil)))
	res, st2 := u.callMethodForLibrary(fr, ok, x, fn, []*Val{{T: dst}, {T: data}})
	if st2 == nil {
		fr.vals[x] = &Val{T: wf}
		return bad
	}
	out := u.merge([]*State{st2, bad})
	fr.vals[x] = &Val{T: u.define("decerr", Ite(st2.pc, res[0].T, wf))}
	return out.Clone()
}

// freshBytes allocates a new byte slice holding content.
func (u *Unit) freshBytes(st *State, content Term) Term {
	id := u.newObj(st)
	E := u.comp(st, ecomp(SInt))
	ln := App(SInt, "blen", content)
	u.setComp(st, ecomp(SInt), Store(E, id, App(ArraySort(SInt, SInt), "wr", Select(E, id), IntLit(0), content)))
	return u.define("fresh", MkSlice(id, IntLit(0), ln, ln))
}

// decodeToArray: destination is a toarray struct (sign1Message, signature, signMessage).
func (u *Unit) decodeToArray(fr *Frame, st *State, x *ssa.Call, mode, data, b, dst Term, elem types.Type, stt *types.Struct) *State {
	name := u.eng.strLit(typeKey(elem))
	err0 := u.define("decerr", App(SAny, "dec_shape_err", mode, b, name))
	u.assume(st.pc, App(SBool, "any_ok", err0, u.comp(st, "alloc")))
	k := stt.NumFields() - 1
	okc := Eq(err0, AnyNil)
	// library contract on success: b is exactly one definite-length array item of k elements, each a well-formed item
	var cat Term
	for i := k - 1; i >= 0; i-- {
		e := App(SBytes, "dec_elem", b, IntLit(int64(i)))
		u.assume(st.pc, Implies(okc, And(Ge(App(SInt, "blen", e), IntLit(1)), App(SBool, "item_wf", e))))
		if cat.S == "" {
			cat = e
		} else {
			cat = App(SBytes, "bcat", e, cat)
		}
	}
	u.assume(st.pc, Implies(okc, And(Ge(App(SInt, "blen", b), IntLit(1)), App(SBool, "item_wf", b))))
	// with the shortest-form array head (which the repository's prefix checks demand) the item is head ++ elements
	u.assume(st.pc, Implies(And(okc, Eq(App(SInt, "bat", b, IntLit(0)), IntLit(int64(0x80+k)))), Eq(b, App(SBytes, "bcat", App(SBytes, "byte1", IntLit(int64(0x80+k))), cat))))
	good := st.Clone()
	good.pc = u.define("pc", And(st.pc, okc))
	bad := st.Clone()
	bad.pc = u.define("pc", And(st.pc, Not(okc)))
	cur := good
	fieldErr := AnyNil
	for i := 1; i <= k; i++ {
		ft := stt.Field(i).Type()
		fa := FieldAddrT(dst, i)
		e := App(SBytes, "dec_elem", b, IntLit(int64(i-1)))
		fk := typeKey(ft)
		switch {
		case fk == "github.com/fxamacker/cbor/v2.RawMessage":
			sl := u.freshBytes(cur, e)
			u.storeType(cur, fa, ft, sl)
		case u.repoUnmarshaler(ft) != nil:
			tmp := u.freshBytes(cur, e)
			res, st2 := u.callMethodForLibrary(fr, cur, x, u.repoUnmarshaler(ft), []*Val{{T: fa}, {T: tmp}})
			if st2 == nil {
				panic("field decoder never returns")
			}
			cur = st2
			fieldErr = u.define("fielderr", Ite(Eq(fieldErr, AnyNil), res[0].T, fieldErr))
		case fk == "[]github.com/fxamacker/cbor/v2.RawMessage":
			n := u.define("n", App(SInt, "dec_count", b, IntLit(int64(i-1))))
			isnil := App(SBool, "dec_isnull", b, IntLit(int64(i-1)))
			id := u.newObj(cur)
			base := u.comp(cur, "alloc")
			a1 := u.fresh("alloc", SInt)
			u.assume(cur.pc, Ge(a1, Add(base, n)))
			cur.comps["alloc"] = a1
			u.assume(cur.pc, Implies(isnil, Eq(n, IntLit(0))))
			// element j is a fresh slice (object base+j) holding the j-th element's bytes
			ES := u.comp(cur, ecomp(SSlice))
			EI := u.comp(cur, ecomp(SInt))
			newES := u.fresh("decarr", ArraySort(SInt, SSlice))
			newEI := u.fresh("decmem", compSort(ecomp(SInt)))
			q := Term{"qj!", SInt}
			ej := App(SBytes, "dec_elem2", b, IntLit(int64(i-1)), q)
			inr := And(Le(IntLit(0), q), Lt(q, n))
			u.assume(cur.pc, Forall([]Term{q}, Implies(inr, And(
				Eq(Select(newES, q), MkSlice(Add(base, q), IntLit(0), App(SInt, "blen", ej), App(SInt, "blen", ej))),
				Ge(App(SInt, "blen", ej), IntLit(1)), App(SBool, "item_wf", ej),
				Eq(App(SBytes, "view", Select(newEI, Add(base, q)), IntLit(0), App(SInt, "blen", ej)), ej))), []Term{Select(newES, q)}))
			qi := Term{"qi!", SInt}
			u.assume(cur.pc, Forall([]Term{qi}, Implies(Lt(qi, base), Eq(Select(newEI, qi), Select(EI, qi))), []Term{Select(newEI, qi)}))
			u.setComp(cur, ecomp(SInt), newEI)
			u.setComp(cur, ecomp(SSlice), Store(ES, id, newES))
			sl := u.define("declist", Ite(isnil, NilSlice, MkSlice(id, IntLit(0), n, n)))
			u.storeType(cur, fa, ft, sl)
		default:
			panic("decodeToArray: unsupported field type " + fk)
		}
	}
	out := u.merge([]*State{cur, bad})
	fr.vals[x] = &Val{T: u.define("decerr", Ite(cur.pc, fieldErr, err0))}
	return out.Clone()
}

func (u *Unit) decodeAny(fr *Frame, st *State, x *ssa.Call, mode, b, dst Term) *State {
	err := u.define("decerr", App(SAny, "dec_shape_err", mode, b, u.eng.strLit("any")))
	a1 := u.fresh("alloc", SInt)
	u.assume(st.pc, Ge(a1, u.comp(st, "alloc")))
	st.comps["alloc"] = a1
	u.assume(st.pc, App(SBool, "any_ok", err, a1))
	v := u.define("decany", App(SAny, "dec_any", mode, b))
	u.assume(st.pc, Implies(Eq(err, AnyNil), And(App(SBool, "any_ok", v, a1), App(SBool, "dec_val_ok", v), Ge(App(SInt, "blen", b), IntLit(1)), App(SBool, "item_wf", b))))
	H := u.comp(st, hcomp(SAny))
	u.setComp(st, hcomp(SAny), Ite(Eq(err, AnyNil), Store(H, dst, v), H))
	fr.vals[x] = &Val{T: err}
	return st
}

func (u *Unit) decodeMapAny(fr *Frame, st *State, x *ssa.Call, mode, b, dst Term, elem types.Type) *State {
	mt := elem.Underlying().(*types.Map)
	md, mv, ks, _ := u.mapComps(mt)
	err := u.define("decerr", App(SAny, "dec_shape_err", mode, b, u.eng.strLit("map[any]any")))
	id := u.newObj(st)
	a1 := u.fresh("alloc", SInt)
	u.assume(st.pc, Ge(a1, u.comp(st, "alloc")))
	st.comps["alloc"] = a1
	u.assume(st.pc, App(SBool, "any_ok", err, a1))
	okc := Eq(err, AnyNil)
	dom := App(ArraySort(ks, SBool), "dec_map_dom", mode, b)
	val := App(ArraySort(ks, SAny), "dec_map_val", mode, b)
	ln := App(SInt, "dec_map_len", mode, b)
	isMap := Eq(App(SInt, "div", App(SInt, "bat", b, IntLit(0)), IntLit(32)), IntLit(5))
	q := Term{"qk!", ks}
	empty := Term{fmt.Sprintf("((as const (Array %s Bool)) false)", ks), ArraySort(ks, SBool)}
	u.assume(st.pc, Implies(okc, And(Ge(App(SInt, "blen", b), IntLit(1)), App(SBool, "item_wf", b),
		Iff(Eq(ln, IntLit(0)), Eq(dom, empty)),
		Forall([]Term{q}, Implies(Select(dom, q), And(Ge(ln, IntLit(1)), App(SBool, "any_hashable", q), App(SBool, "dec_val_ok", q), App(SBool, "any_ok", q, a1),
			App(SBool, "dec_val_ok", Select(val, q)), App(SBool, "any_ok", Select(val, q), a1))), []Term{Select(dom, q)}))))
	// the pre-validation of labels (when it succeeded on the same bytes) leaves only int64 / text keys
	u.assume(st.pc, Implies(And(okc, Eq(App(SAny, "dec_labels_err", mode, b), AnyNil)),
		Forall([]Term{q}, Implies(Select(dom, q), Or(Term{"((_ is A_int64) " + q.S + ")", SBool}, Term{"((_ is A_string) " + q.S + ")", SBool})), []Term{Select(dom, q)})))
	D, V, L := u.comp(st, md), u.comp(st, mv), u.comp(st, "ML")
	u.setComp(st, md, Ite(And(okc, isMap), Store(D, id, dom), D))
	u.setComp(st, mv, Ite(And(okc, isMap), Store(V, id, val), V))
	u.setComp(st, "ML", Ite(And(okc, isMap), Store(L, id, ln), L))
	H := u.comp(st, hcomp(SInt))
	// a map item yields a fresh map; null / undefined yield a nil map; anything else is an error
	u.assume(st.pc, Implies(And(okc, Not(isMap)), Or(Eq(App(SInt, "bat", b, IntLit(0)), IntLit(246)), Eq(App(SInt, "bat", b, IntLit(0)), IntLit(247)))))
	u.setComp(st, hcomp(SInt), Ite(okc, Store(H, dst, Ite(isMap, id, IntLit(0))), H))
	fr.vals[x] = &Val{T: err}
	return st
}

func (u *Unit) decodeMapRaw(fr *Frame, st *State, x *ssa.Call, mode, b, dst Term, elem types.Type) *State {
	mt := elem.Underlying().(*types.Map)
	md, mv, ks, vs := u.mapComps(mt)
	err := u.define("decerr", App(SAny, "dec_shape_err", mode, b, u.eng.strLit("map[any]RawMessage")))
	id := u.newObj(st)
	base := u.comp(st, "alloc")
	a1 := u.fresh("alloc", SInt)
	u.assume(st.pc, Ge(a1, base))
	st.comps["alloc"] = a1
	u.assume(st.pc, App(SBool, "any_ok", err, a1))
	okc := Eq(err, AnyNil)
	dom := App(ArraySort(ks, SBool), "dec_map_dom", mode, b)
	ln := App(SInt, "dec_map_len", mode, b)
	isMap := Eq(App(SInt, "div", App(SInt, "bat", b, IntLit(0)), IntLit(32)), IntLit(5))
	q := Term{"qk!", ks}
	empty := Term{fmt.Sprintf("((as const (Array %s Bool)) false)", ks), ArraySort(ks, SBool)}
	val := u.fresh("rawvals", ArraySort(ks, vs))
	EI := u.comp(st, ecomp(SInt))
	newEI := u.fresh("decmem", compSort(ecomp(SInt)))
	rb := App(SBytes, "dec_map_raw", mode, b, q)
	oid := App(SInt, "dec_obj", base, q)
	u.assume(st.pc, Implies(okc, And(Ge(App(SInt, "blen", b), IntLit(1)), App(SBool, "item_wf", b),
		Iff(Eq(ln, IntLit(0)), Eq(dom, empty)),
		Forall([]Term{q}, Implies(Select(dom, q), And(Ge(ln, IntLit(1)), App(SBool, "any_hashable", q), App(SBool, "dec_val_ok", q), App(SBool, "any_ok", q, a1),
			Le(base, oid), Lt(oid, a1),
			Eq(Select(val, q), MkSlice(oid, IntLit(0), App(SInt, "blen", rb), App(SInt, "blen", rb))),
			Ge(App(SInt, "blen", rb), IntLit(1)), App(SBool, "item_wf", rb),
			Eq(App(SBytes, "view", Select(newEI, oid), IntLit(0), App(SInt, "blen", rb)), rb))), []Term{Select(dom, q)}))))
	u.assume(st.pc, Implies(And(okc, Eq(App(SAny, "dec_labels_err", mode, b), AnyNil)),
		Forall([]Term{q}, Implies(Select(dom, q), Or(Term{"((_ is A_int64) " + q.S + ")", SBool}, Term{"((_ is A_string) " + q.S + ")", SBool})), []Term{Select(dom, q)})))
	qi := Term{"qi!", SInt}
	u.assume(st.pc, Forall([]Term{qi}, Implies(Lt(qi, base), Eq(Select(newEI, qi), Select(EI, qi))), []Term{Select(newEI, qi)}))
	u.setComp(st, ecomp(SInt), Ite(okc, newEI, EI))
	D, V, L := u.comp(st, md), u.comp(st, mv), u.comp(st, "ML")
	u.setComp(st, md, Ite(And(okc, isMap), Store(D, id, dom), D))
	u.setComp(st, mv, Ite(And(okc, isMap), Store(V, id, val), V))
	u.setComp(st, "ML", Ite(And(okc, isMap), Store(L, id, ln), L))
	H := u.comp(st, hcomp(SInt))
	u.setComp(st, hcomp(SInt), Ite(okc, Store(H, dst, Ite(isMap, id, IntLit(0))), H))
	fr.vals[x] = &Val{T: err}
	return st
}

// decodePtrList: []*T where *T has a repository UnmarshalCBOR. The list may be nil (null / undefined item), and
// each element is nil (null / undefined element) or a fresh object; nothing is known about the objects' contents.
func (u *Unit) decodePtrList(fr *Frame, st *State, x *ssa.Call, mode, b, dst Term, elem types.Type) *State {
	err := u.define("decerr", App(SAny, "dec_shape_err", mode, b, u.eng.strLit(typeKey(elem))))
	id := u.newObj(st)
	base := u.comp(st, "alloc")
	a1 := u.fresh("alloc", SInt)
	u.assume(st.pc, Ge(a1, base))
	st.comps["alloc"] = a1
	u.assume(st.pc, App(SBool, "any_ok", err, a1))
	okc := Eq(err, AnyNil)
	n := u.define("n", App(SInt, "dec_count", b, IntLit(-1)))
	isnil := App(SBool, "dec_isnull", b, IntLit(-1))
	u.assume(st.pc, Implies(isnil, Eq(n, IntLit(0))))
	arr := u.fresh("decptrs", ArraySort(SInt, SAddr))
	q := Term{"qj!", SInt}
	p := Select(arr, q)
	u.assume(st.pc, Forall([]Term{q}, Or(Eq(p, NilAddr), And(Le(base, App(SInt, "aobj", p)), Lt(App(SInt, "aobj", p), a1), Eq(App("Path", "apath", p), Term{"pnil", "Path"}))), []Term{p}))
	// the heap cells of the fresh objects are arbitrary: havoc every pointer-addressed component above base
	for _, k := range compKeys2(map[string]bool{hcomp(SInt): true, hcomp(SSlice): true, hcomp(SAny): true, hcomp(SAddr): true, hcomp(SBool): true, hcomp(SStr): true}) {
		old := u.comp(st, k)
		nw := u.fresh("hv!"+k, compSort(k))
		qa := Term{"qa!", SAddr}
		u.assume(st.pc, Forall([]Term{qa}, Implies(Lt(App(SInt, "aobj", qa), base), Eq(Select(nw, qa), Select(old, qa))), []Term{Select(nw, qa)}))
		u.setComp(st, k, Ite(okc, nw, old))
	}
	EA := u.comp(st, ecomp(SAddr))
	u.setComp(st, ecomp(SAddr), Ite(okc, Store(EA, id, arr), EA))
	H := u.comp(st, hcomp(SSlice))
	u.setComp(st, hcomp(SSlice), Ite(okc, Store(H, dst, Ite(isnil, NilSlice, MkSlice(id, IntLit(0), n, n))), H))
	fr.vals[x] = &Val{T: err}
	return st
}

type decodeModel func(u *Unit, fr *Frame, st *State, x *ssa.Call, mode, data, b, dst Term, elem types.Type) *State

var decodeModels = map[string]decodeModel{}

func init() {
	// *[]byte: bstr (or array of small ints / null / undefined, which the repo excludes before calling)
	decodeModels["[]byte"] = func(u *Unit, fr *Frame, st *State, x *ssa.Call, mode, data, b, dst Term, elem types.Type) *State {
		err := u.define("decerr", App(SAny, "dec_bytes_err", mode, b))
		isB := Eq(App(SInt, "div", App(SInt, "bat", b, IntLit(0)), IntLit(32)), IntLit(2))
		// completeness and soundness for major type 2: accepted iff a single well-formed definite bstr
		u.assume(st.pc, Implies(And(Ge(App(SInt, "blen", b), IntLit(1)), isB), Iff(Eq(err, AnyNil), App(SBool, "bstr_wf", b))))
		u.assume(st.pc, Implies(Eq(err, AnyNil), Ge(App(SInt, "blen", b), IntLit(1))))
		u.assume(st.pc, App(SBool, "any_ok", err, u.comp(st, "alloc")))
		id := u.newObj(st)
		content := App(SBytes, "bstr_content", b)
		E := u.comp(st, ecomp(SInt))
		ln := App(SInt, "blen", content)
		// a zero-length byte string decodes to an empty non-nil slice
		newv := u.fresh("decbytes", SSlice)
		u.assume(st.pc, Implies(isB, Eq(newv, MkSlice(id, IntLit(0), ln, ln))))
		u.assume(st.pc, App(SBool, "slice_ok", newv, u.comp(st, "alloc")))
		okc := Eq(err, AnyNil)
		u.setComp(st, ecomp(SInt), Ite(okc, Store(E, id, App(ArraySort(SInt, SInt), "wr", Select(E, id), IntLit(0), content)), E))
		H := u.comp(st, hcomp(SSlice))
		u.setComp(st, hcomp(SSlice), Ite(okc, Store(H, dst, newv), H))
		fr.vals[x] = &Val{T: err}
		return st
	}
	decodeModels["[]uint8"] = decodeModels["[]byte"]
}

// cryptoAxioms: documented facts about crypto.Signer.Public() of the standard library's own private key types.
func (e *Engine) cryptoAxioms() string {
	var sb strings.Builder
	find := func(path, name string, ptr bool) *AnyCon {
		for _, p := range e.allPackages() {
			if p.Path() == path {
				if o := p.Scope().Lookup(name); o != nil {
					t := o.Type()
					if ptr {
						t = types.NewPointer(t)
					}
					return e.reg.AnyConOf(t)
				}
			}
		}
		return nil
	}
	priv, pub := find("crypto/ecdsa", "PrivateKey", true), find("crypto/ecdsa", "PublicKey", true)
	if priv != nil && pub != nil {
		// (*ecdsa.PrivateKey).Public() returns &priv.PublicKey
		fmt.Fprintf(&sb, "(assert (forall ((p Addr)) (! (= (crypto_public (%s p)) (%s (mk-addr (aobj p) (pcons 0 (apath p))))) :pattern ((crypto_public (%s p))))))\n", priv.Con, pub.Con, priv.Con)
	}
	epriv, epub := find("crypto/ed25519", "PrivateKey", false), find("crypto/ed25519", "PublicKey", false)
	if epriv != nil && epub != nil {
		// ed25519.PrivateKey.Public() returns a 32-byte ed25519.PublicKey (a copy of priv[32:]) when the key has its 64 bytes
		fmt.Fprintf(&sb, "(assert (forall ((s Slice)) (! (and ((_ is %s) (crypto_public (%s s))) (=> (= (slen s) 64) (= (slen (%s (crypto_public (%s s)))) 32))) :pattern ((crypto_public (%s s))))))\n", epub.Con, epriv.Con, epub.Sel, epriv.Con, epriv.Con)
	}
	return sb.String()
}
