package main

import (
	"fmt"
	"go/types"
	"sort"
	"strings"

	"golang.org/x/tools/go/ssa"
)

// invariantsFor returns the invariant clauses of loop n of the function of fr
// (only for the top frame's contract or the callee's own contract when inlined).
func (u *Unit) invariantsFor(fr *Frame, n int) []*Clause {
	c := u.eng.specs.Contracts[fnName(fr.fn)]
	if c == nil {
		return nil
	}
	var out []*Clause
	for _, cl := range c.Clauses {
		if cl.Kind == "invariant" && cl.Loop == n && cl.visible(u.eng.prop) {
			out = append(out, cl)
		}
	}
	return out
}

func (u *Unit) invEnv(fr *Frame, head *ssa.BasicBlock, st *State, phiVals map[*ssa.Phi]Term) *SEnv {
	env := &SEnv{u: u, cur: st, old: u.entryOf(fr), vars: map[string]*SVal{}, fr: fr, head: head, fn: fnName(fr.fn), pc: st.pc}
	if fr.loopEntry != nil {
		env.loopEntry = fr.loopEntry[head]
	}
	for i, p := range fr.fn.Params {
		if fr.params[i].T.S != "" {
			env.vars[p.Name()] = &SVal{T: fr.params[i].T, Go: p.Type()}
		}
	}
	// loop variables
	for _, ins := range head.Instrs {
		phi, ok := ins.(*ssa.Phi)
		if !ok {
			break
		}
		t, ok := phiVals[phi]
		if !ok {
			continue
		}
		if phi.Comment == "rangeindex" {
			env.vars["idx"] = &SVal{T: Add(t, IntLit(1))}
		} else if phi.Comment != "" {
			env.vars[phi.Comment] = &SVal{T: t, Go: phi.Type()}
		}
	}
	// map iterator ghost
	for _, ins := range head.Instrs {
		if nx, ok := ins.(*ssa.Next); ok {
			if iv, ok := fr.vals[nx.Iter]; ok && iv.Iter != nil {
				env.vars["seen"] = &SVal{T: u.comp(st, iv.Iter.Ghost)}
				env.vars["ranged"] = &SVal{T: iv.Iter.Map, Go: iv.Iter.MapT}
			}
		}
	}
	return env
}

func (u *Unit) entryOf(fr *Frame) *State {
	if fr.entry != nil {
		return fr.entry
	}
	return nil
}

// loopHead: assert invariants on entry, havoc loop-modified state, assume invariants.
func (u *Unit) loopHead(fr *Frame, ci *cfgInfo, b *ssa.BasicBlock, phis []*ssa.Phi, in *State, edges map[[2]int]*State) *State {
	n := fr.loopOrd[b]
	invs := u.invariantsFor(fr, n)
	fname := fnName(fr.fn)
	// entry values of phis
	entryVals := map[*ssa.Phi]Term{}
	for _, phi := range phis {
		var t Term
		first := true
		for i := len(b.Preds) - 1; i >= 0; i-- {
			e := [2]int{b.Preds[i].Index, b.Index}
			s, ok := edges[e]
			if ci.backEdge[e] || !ok || s == nil || s.pc.S == "false" {
				continue
			}
			v := u.operand(fr, phi.Edges[i])
			if first {
				t = v.T
				first = false
			} else {
				t = Ite(s.pc, v.T, t)
			}
		}
		entryVals[phi] = t
	}
	// 1. invariants hold on entry
	if fr.loopEntry == nil {
		fr.loopEntry = map[*ssa.BasicBlock]*State{}
	}
	fr.loopEntry[b] = in
	env := u.invEnv(fr, b, in, entryVals)
	for _, cl := range invs {
		t, err := env.EvalBool(cl.Expr)
		if err != nil {
			u.errs = append(u.errs, fmt.Sprintf("%s loop %d invariant %s: %v", fname, n, cl.Label, err))
			continue
		}
		u.oblige(in, "invariant", fname, cl.Label+"@entry", "", t, cl.Tags)
	}
	// 2. havoc
	cur := in.Clone()
	mods := u.loopMods(fr, ci, b)
	u.comment(fmt.Sprintf("loop %d of %s: havoc %v", n, fname, mods))
	for _, c := range mods {
		if c == "alloc" {
			old := u.comp(cur, "alloc")
			nw := u.fresh("alloc", SInt)
			u.assume(cur.pc, Ge(nw, old))
			cur.comps["alloc"] = nw
			continue
		}
		// ensure declared
		u.comp(cur, c)
		cur.comps[c] = u.fresh("hv!"+c, compSort(c))
	}
	headVals := map[*ssa.Phi]Term{}
	for _, phi := range phis {
		v := u.fresh(phi.Name()+"!"+phi.Comment, u.eng.reg.SortOf(phi.Type()))
		u.assume(cur.pc, u.typeInv(v, phi.Type(), u.comp(cur, "alloc")))
		fr.vals[phi] = &Val{T: v}
		headVals[phi] = v
		if phi.Comment == "rangeindex" {
			u.assume(cur.pc, Ge(v, IntLit(-1)))
		}
	}
	// 2b. automatic frame invariant: whatever the loop does, objects that existed at function
	// entry and are outside the function's modifies clause keep their entry value
	// (checked on every back edge, and at entry trivially by the frame of the prefix)
	if fr.top && fr.contract != nil && !fr.contract.Inline {
		if goals, _, _, none := u.frameGoals(fr.fn, fr.contract, fr, fr.entry, in); !none && len(goals) > 0 {
			for gi, g := range goals {
				u.oblige(in, "invariant", fname, fmt.Sprintf("autoframe%d.%d@entry", n, gi), "", g, nil)
			}
		}
		if goals, _, _, none := u.frameGoals(fr.fn, fr.contract, fr, fr.entry, cur); !none {
			for _, g := range goals {
				u.assume(cur.pc, g)
			}
		}
	}
	// 3. assume invariants
	env2 := u.invEnv(fr, b, cur, headVals)
	for _, cl := range invs {
		t, err := env2.EvalBool(cl.Expr)
		if err != nil {
			continue
		}
		u.assume(cur.pc, t)
	}
	return cur
}

func (u *Unit) loopBackEdge(fr *Frame, ci *cfgInfo, from, to *ssa.BasicBlock, s *State) {
	n := fr.loopOrd[to]
	invs := u.invariantsFor(fr, n)
	fname := fnName(fr.fn)
	vals := map[*ssa.Phi]Term{}
	pi := -1
	for i, p := range to.Preds {
		if p == from {
			pi = i
		}
	}
	for _, ins := range to.Instrs {
		phi, ok := ins.(*ssa.Phi)
		if !ok {
			break
		}
		vals[phi] = u.operand(fr, phi.Edges[pi]).T
	}
	if fr.top && fr.contract != nil && !fr.contract.Inline {
		if goals, _, _, none := u.frameGoals(fr.fn, fr.contract, fr, fr.entry, s); !none && len(goals) > 0 {
			for gi, g := range goals {
				u.oblige(s, "invariant", fname, fmt.Sprintf("autoframe%d.%d@back%d", n, gi, from.Index), "", g, nil)
			}
		}
	}
	env := u.invEnv(fr, to, s, vals)
	for _, cl := range invs {
		t, err := env.EvalBool(cl.Expr)
		if err != nil {
			u.errs = append(u.errs, fmt.Sprintf("%s loop %d invariant %s (back edge): %v", fname, n, cl.Label, err))
			continue
		}
		u.oblige(s, "invariant", fname, fmt.Sprintf("%s@back%d", cl.Label, from.Index), "", t, cl.Tags)
	}
}

// loopMods computes the heap components possibly modified in the natural loop
// headed by b (syntactic scan, following calls that will be inlined).
func (u *Unit) loopMods(fr *Frame, ci *cfgInfo, b *ssa.BasicBlock) []string {
	set := map[string]bool{}
	body := ci.loopBody[b.Index]
	for idx := range body {
		for _, ins := range fr.fn.Blocks[idx].Instrs {
			u.instrMods(ins, set, 0)
		}
	}
	// ghosts of iterators advanced in the loop
	for idx := range body {
		for _, ins := range fr.fn.Blocks[idx].Instrs {
			if nx, ok := ins.(*ssa.Next); ok {
				if iv, ok := fr.vals[nx.Iter]; ok && iv.Iter != nil {
					set[iv.Iter.Ghost] = true
				}
			}
		}
	}
	if set["*"] {
		// unknown effect: every heap component that exists or is part of the data snapshot
		delete(set, "*")
		for _, k := range u.eng.dataComps {
			set[k] = true
		}
		set["BIG"] = true
		set["alloc"] = true
		for k := range u.init0 {
			if strings.HasPrefix(k, "H:") || strings.HasPrefix(k, "E:") || strings.HasPrefix(k, "M") {
				set[k] = true
			}
		}
	}
	var out []string
	for k := range set {
		out = append(out, k)
	}
	sort.Strings(out)
	return out
}

func (u *Unit) instrMods(ins ssa.Instruction, set map[string]bool, depth int) {
	reg := u.eng.reg
	switch x := ins.(type) {
	case *ssa.Store:
		if ia, ok := x.Addr.(*ssa.IndexAddr); ok {
			var et types.Type
			switch t := ia.X.Type().Underlying().(type) {
			case *types.Slice:
				et = t.Elem()
			case *types.Pointer:
				et = t.Elem().Underlying().(*types.Array).Elem()
			}
			set[ecomp(reg.SortOf(et))] = true
			return
		}
		u.leafComps(x.Val.Type(), set)
	case *ssa.MapUpdate:
		mt := x.Map.Type().Underlying().(*types.Map)
		md, mv, _, vs := u.mapComps(mt)
		set[md] = true
		if vs != SUnit {
			set[mv] = true
		}
		set["ML"] = true
	case *ssa.Alloc:
		set["alloc"] = true
		et := x.Type().(*types.Pointer).Elem()
		u.allocComps(et, set)
	case *ssa.MakeMap:
		set["alloc"] = true
		mt := x.Type().Underlying().(*types.Map)
		md, _, _, _ := u.mapComps(mt)
		set[md] = true
		set["ML"] = true
	case *ssa.MakeSlice:
		set["alloc"] = true
		set[ecomp(reg.SortOf(x.Type().Underlying().(*types.Slice).Elem()))] = true
	case *ssa.Convert:
		if isString(x.X.Type()) {
			set["alloc"] = true
			set[ecomp(SInt)] = true
		}
	case *ssa.Call:
		u.callMods(x, set, depth)
	}
}

func (u *Unit) leafComps(t types.Type, set map[string]bool) {
	if st, ok := t.Underlying().(*types.Struct); ok {
		for i := 0; i < st.NumFields(); i++ {
			u.leafComps(st.Field(i).Type(), set)
		}
		return
	}
	set[hcomp(u.eng.reg.SortOf(t))] = true
}

func (u *Unit) allocComps(t types.Type, set map[string]bool) {
	if isBigInt(t) {
		set["BIG"] = true
		return
	}
	switch ut := t.Underlying().(type) {
	case *types.Struct:
		for i := 0; i < ut.NumFields(); i++ {
			u.allocComps(ut.Field(i).Type(), set)
		}
	case *types.Array:
		set[ecomp(u.eng.reg.SortOf(ut.Elem()))] = true
	default:
		set[hcomp(u.eng.reg.SortOf(t))] = true
	}
}
