package main

import (
	"fmt"
	"go/constant"
	"go/types"
	"strings"

	"golang.org/x/tools/go/ssa"
)

type externModel func(u *Unit, fr *Frame, st *State, x *ssa.Call, args []*Val) ([]*Val, *State)

var externModels map[string]externModel
var externMods map[string][]string
var externDocs map[string]string

const (
	tidErrorString = 900001
	tidWrapError   = 900002
	tidHash        = 900003
	tidECDHKey     = 900004
	tidOpaque      = 900005
)

func one(t Term) []*Val { return []*Val{{T: t}} }

func init() {
	externModels = map[string]externModel{}
	externMods = map[string][]string{}
	externDocs = map[string]string{}
	reg := func(name, doc string, mods []string, m externModel) {
		externModels[name] = m
		externMods[name] = mods
		externDocs[name] = doc
	}
	reg("errors.New", "returns a fresh non-nil error that wraps nothing", []string{"alloc"},
		func(u *Unit, fr *Frame, st *State, x *ssa.Call, args []*Val) ([]*Val, *State) {
			id := u.newObj(st)
			e := u.define("err", App(SAny, "A_other", IntLit(tidErrorString), id))
			u.assume(st.pc, Eq(App(SAny, "wraps", e), AnyNil))
			return one(e), st
		})
	reg("fmt.Errorf", "returns a fresh non-nil error; with a constant format containing one %w it wraps that operand", []string{"alloc"},
		func(u *Unit, fr *Frame, st *State, x *ssa.Call, args []*Val) ([]*Val, *State) {
			id := u.newObj(st)
			e := u.define("err", App(SAny, "A_other", IntLit(tidWrapError), id))
			wrapped := AnyNil
			if c, ok := x.Call.Args[0].(*ssa.Const); ok && c.Value != nil && c.Value.Kind() == constant.String {
				format := constant.StringVal(c.Value)
				idx := verbIndex(format, 'w')
				if idx >= 0 {
					// variadic args are packed into a slice literal: find element idx
					if t, ok := u.variadicElem(fr, st, x.Call.Args[1], idx); ok {
						wrapped = t
					} else {
						wrapped = u.fresh("wrapped", SAny)
					}
				}
			} else {
				wrapped = u.fresh("wrapped", SAny)
			}
			u.assume(st.pc, Eq(App(SAny, "wraps", e), wrapped))
			return one(e), st
		})
	reg("fmt.Sprint", "returns an arbitrary string", nil,
		func(u *Unit, fr *Frame, st *State, x *ssa.Call, args []*Val) ([]*Val, *State) {
			return one(u.fresh("str", SStr)), st
		})
	reg("strconv.FormatInt", "returns an arbitrary string", nil,
		func(u *Unit, fr *Frame, st *State, x *ssa.Call, args []*Val) ([]*Val, *State) {
			return one(u.fresh("str", SStr)), st
		})
	reg("strings.Count", "uninterpreted non-negative function of both strings", nil,
		func(u *Unit, fr *Frame, st *State, x *ssa.Call, args []*Val) ([]*Val, *State) {
			r := App(SInt, "str_count", args[0].T, args[1].T)
			u.assume(st.pc, Ge(r, IntLit(0)))
			return one(r), st
		})
	reg("bytes.Equal", "true iff both slices hold the same byte sequence", nil,
		func(u *Unit, fr *Frame, st *State, x *ssa.Call, args []*Val) ([]*Val, *State) {
			a, b := args[0].T, args[1].T
			if n, ok := constLen(x.Call.Args[1]); ok && n <= 16 {
				return one(u.define("beq", u.elementwiseEq(st, a, b, n, true))), st
			}
			if n, ok := constLen(x.Call.Args[0]); ok && n <= 16 {
				return one(u.define("beq", u.elementwiseEq(st, b, a, n, true))), st
			}
			r := u.fresh("beq", SBool)
			va, vb := u.bytesOf(st, a), u.bytesOf(st, b)
			u.assume(st.pc, Iff(r, Eq(va, vb)))
			u.assume(st.pc, bytesExt(va, vb))
			return one(r), st
		})
	reg("bytes.HasPrefix", "true iff the second slice is a prefix of the first", nil,
		func(u *Unit, fr *Frame, st *State, x *ssa.Call, args []*Val) ([]*Val, *State) {
			a, b := args[0].T, args[1].T
			if n, ok := constLen(x.Call.Args[1]); ok && n <= 16 {
				return one(u.define("hasprefix", u.elementwiseEq(st, a, b, n, false))), st
			}
			r := u.fresh("hasprefix", SBool)
			va, vb := u.bytesOf(st, a), u.bytesOf(st, b)
			pre := App(SBytes, "bsub", va, IntLit(0), SLen(b))
			u.assume(st.pc, Iff(r, And(Ge(SLen(a), SLen(b)), Eq(pre, vb))))
			return one(r), st
		})
	reg("maps.Clone", "nil for nil; otherwise a fresh map with the same domain and values; argument unchanged", []string{"alloc", "MD:Any:Any", "MV:Any:Any", "ML"},
		func(u *Unit, fr *Frame, st *State, x *ssa.Call, args []*Val) ([]*Val, *State) {
			m := args[0].T
			mt := x.Call.Args[0].Type().Underlying().(*types.Map)
			md, mv, _, vs := u.mapComps(mt)
			id := u.newObj(st)
			D, L := u.comp(st, md), u.comp(st, "ML")
			isNil := Eq(m, IntLit(0))
			u.setComp(st, md, Ite(isNil, D, Store(D, id, Select(D, m))))
			if vs != SUnit {
				V := u.comp(st, mv)
				u.setComp(st, mv, Ite(isNil, V, Store(V, id, Select(V, m))))
			}
			u.setComp(st, "ML", Ite(isNil, L, Store(L, id, Select(L, m))))
			return one(u.define("clone", Ite(isNil, IntLit(0), id))), st
		})

	// ---- math/big ----
	reg("(*math/big.Int).Sign", "sign of the abstract value; requires non-nil receiver", nil,
		func(u *Unit, fr *Frame, st *State, x *ssa.Call, args []*Val) ([]*Val, *State) {
			u.reqNonNil(fr, st, x, args[0].T)
			v := Select(u.comp(st, "BIG"), args[0].T)
			return one(Ite(Lt(v, IntLit(0)), IntLit(-1), Ite(Eq(v, IntLit(0)), IntLit(0), IntLit(1)))), st
		})
	reg("(*math/big.Int).BitLen", "bitlen(|value|), a non-negative uninterpreted function, monotone axioms in the prelude", nil,
		func(u *Unit, fr *Frame, st *State, x *ssa.Call, args []*Val) ([]*Val, *State) {
			u.reqNonNil(fr, st, x, args[0].T)
			v := Select(u.comp(st, "BIG"), args[0].T)
			r := App(SInt, "bitlen", App(SInt, "abs", v))
			u.assume(st.pc, And(Ge(r, IntLit(0)), Le(r, BigLit("2251799813685248")))) // 2^51: a big.Int occupies at most 2^48 bytes
			return one(r), st
		})
	reg("(*math/big.Int).Bytes", "fresh slice holding the minimal big-endian form of |value|", []string{"alloc", "E:Int"},
		func(u *Unit, fr *Frame, st *State, x *ssa.Call, args []*Val) ([]*Val, *State) {
			u.reqNonNil(fr, st, x, args[0].T)
			v := App(SInt, "abs", Select(u.comp(st, "BIG"), args[0].T))
			id := u.newObj(st)
			ln := u.define("blen", App(SInt, "div", Add(App(SInt, "bitlen", v), IntLit(7)), IntLit(8)))
			E := u.comp(st, ecomp(SInt))
			content := App(SBytes, "bebytes", v, ln)
			u.setComp(st, ecomp(SInt), Store(E, id, App(ArraySort(SInt, SInt), "wr", Select(E, id), IntLit(0), content)))
			u.assume(st.pc, And(Ge(ln, IntLit(0)), Eq(App(SInt, "blen", content), ln), App(SBool, "minimal_be", content)))
			return one(u.define("bytes", MkSlice(id, IntLit(0), ln, ln))), st
		})
	reg("(*math/big.Int).FillBytes", "requires bitlen(|value|) <= 8*len(buf) (panics otherwise); writes exactly buf[0:len) with the fixed-width big-endian form; returns buf", []string{"E:Int"},
		func(u *Unit, fr *Frame, st *State, x *ssa.Call, args []*Val) ([]*Val, *State) {
			u.reqNonNil(fr, st, x, args[0].T)
			v := App(SInt, "abs", Select(u.comp(st, "BIG"), args[0].T))
			buf := args[1].T
			cond := Le(App(SInt, "bitlen", v), Mul(IntLit(8), SLen(buf)))
			u.panicObl(st, fr, x, "call", cond)
			u.assume(st.pc, cond)
			E := u.comp(st, ecomp(SInt))
			content := App(SBytes, "bebytes", v, SLen(buf))
			u.setComp(st, ecomp(SInt), Store(E, SArr(buf), App(ArraySort(SInt, SInt), "wr", Select(E, SArr(buf)), SOff(buf), content)))
			return one(buf), st
		})
	reg("(*math/big.Int).SetBytes", "sets the receiver to the big-endian value of the bytes; returns the receiver", []string{"BIG"},
		func(u *Unit, fr *Frame, st *State, x *ssa.Call, args []*Val) ([]*Val, *State) {
			u.reqNonNil(fr, st, x, args[0].T)
			B := u.comp(st, "BIG")
			val := App(SInt, "be", u.bytesOf(st, args[1].T))
			u.assume(st.pc, Ge(val, IntLit(0)))
			u.setComp(st, "BIG", Store(B, args[0].T, val))
			return one(args[0].T), st
		})

	// ---- crypto ----
	reg("(crypto.Hash).Available", "uninterpreted predicate of the hash id", nil,
		func(u *Unit, fr *Frame, st *State, x *ssa.Call, args []*Val) ([]*Val, *State) {
			return one(App(SBool, "hash_available", args[0].T)), st
		})
	reg("(crypto.Hash).Size", "32/48/64 for SHA-256/384/512; panics for ids outside (0, maxHash)", nil,
		func(u *Unit, fr *Frame, st *State, x *ssa.Call, args []*Val) ([]*Val, *State) {
			cond := And(Lt(IntLit(0), args[0].T), Lt(args[0].T, IntLit(20)))
			u.panicObl(st, fr, x, "call", cond)
			u.assume(st.pc, cond)
			return one(App(SInt, "hash_size", args[0].T)), st
		})
	reg("(crypto.Hash).New", "requires the hash to be available (panics otherwise); returns a fresh hash state", []string{"alloc", "G:(Array Int Bytes):hashbuf", "G:(Array Int Int):hashalg"},
		func(u *Unit, fr *Frame, st *State, x *ssa.Call, args []*Val) ([]*Val, *State) {
			cond := App(SBool, "hash_available", args[0].T)
			u.panicObl(st, fr, x, "call", cond)
			u.assume(st.pc, cond)
			id := u.newObj(st)
			hb, ha := "G:(Array Int Bytes):hashbuf", "G:(Array Int Int):hashalg"
			u.setComp(st, hb, Store(u.comp(st, hb), id, Term{"bempty", SBytes}))
			u.setComp(st, ha, Store(u.comp(st, ha), id, args[0].T))
			return one(App(SAny, "A_other", IntLit(tidHash), id)), st
		})
	reg("crypto/ecdsa.Sign", "uninterpreted; requires a non-nil key; on success r and s are fresh non-nil integers", []string{"alloc", "BIG", "epoch"},
		func(u *Unit, fr *Frame, st *State, x *ssa.Call, args []*Val) ([]*Val, *State) {
			u.reqNonNil(fr, st, x, args[1].T)
			ep := u.bumpEpoch(st)
			key := u.ecdsaPrivAbs(st, args[1].T)
			dig := u.bytesOf(st, args[2].T)
			err := u.define("ecdsa_err", App(SAny, "ecdsa_sign_err", key, args[0].T, dig, ep))
			r, s := MkAddr(u.newObj(st)), MkAddr(u.newObj(st))
			B := u.comp(st, "BIG")
			B = Store(Store(B, r, App(SInt, "ecdsa_sign_r", key, args[0].T, dig, ep)), s, App(SInt, "ecdsa_sign_s", key, args[0].T, dig, ep))
			u.setComp(st, "BIG", B)
			ok := Eq(err, AnyNil)
			return []*Val{{T: u.define("r", Ite(ok, r, NilAddr))}, {T: u.define("s", Ite(ok, s, NilAddr))}, {T: err}}, st
		})
	reg("crypto/ecdsa.Verify", "uninterpreted predicate of (public key, digest bytes, r, s); requires non-nil key, r, s", nil,
		func(u *Unit, fr *Frame, st *State, x *ssa.Call, args []*Val) ([]*Val, *State) {
			u.reqNonNil(fr, st, x, args[0].T)
			u.reqNonNil(fr, st, x, args[2].T)
			u.reqNonNil(fr, st, x, args[3].T)
			B := u.comp(st, "BIG")
			r := App(SBool, "ecdsa_verify", u.ecdsaPubAbs(st, args[0].T), u.bytesOf(st, args[1].T), Select(B, args[2].T), Select(B, args[3].T))
			return one(u.define("ecdsa_ok", r)), st
		})
	reg("(*crypto/ecdsa.PublicKey).ECDH", "error is an uninterpreted function of the public key; key result opaque", []string{"alloc"},
		func(u *Unit, fr *Frame, st *State, x *ssa.Call, args []*Val) ([]*Val, *State) {
			u.reqNonNil(fr, st, x, args[0].T)
			err := u.define("ecdh_err", App(SAny, "ecdh_err", u.ecdsaPubAbs(st, args[0].T)))
			id := u.newObj(st)
			return []*Val{{T: Ite(Eq(err, AnyNil), MkAddr(id), NilAddr)}, {T: err}}, st
		})
	reg("crypto/ed25519.NewKeyFromSeed", "requires len(seed)==32 (panics otherwise); returns a fresh 64-byte key whose first half is the seed", []string{"alloc", "E:Int"},
		func(u *Unit, fr *Frame, st *State, x *ssa.Call, args []*Val) ([]*Val, *State) {
			seed := args[0].T
			cond := Eq(SLen(seed), IntLit(32))
			u.panicObl(st, fr, x, "call", cond)
			u.assume(st.pc, cond)
			id := u.newObj(st)
			E := u.comp(st, ecomp(SInt))
			sb := u.bytesOf(st, seed)
			content := App(SBytes, "bcat", sb, App(SBytes, "ed_pub_of_seed", sb))
			u.setComp(st, ecomp(SInt), Store(E, id, App(ArraySort(SInt, SInt), "wr", Select(E, id), IntLit(0), content)))
			return one(MkSlice(id, IntLit(0), IntLit(64), IntLit(64))), st
		})
	reg("crypto/ed25519.Verify", "requires len(publicKey)==32 (panics otherwise); uninterpreted predicate of (key, message, signature) bytes", nil,
		func(u *Unit, fr *Frame, st *State, x *ssa.Call, args []*Val) ([]*Val, *State) {
			cond := Eq(SLen(args[0].T), IntLit(32))
			u.panicObl(st, fr, x, "call", cond)
			u.assume(st.pc, cond)
			r := App(SBool, "ed25519_verify", u.bytesOf(st, args[0].T), u.bytesOf(st, args[1].T), u.bytesOf(st, args[2].T))
			return one(u.define("ed_ok", r)), st
		})
	reg("crypto/rsa.VerifyPSS", "error is an uninterpreted function of (key, hash, digest bytes, signature bytes, salt length); requires non-nil key", nil,
		func(u *Unit, fr *Frame, st *State, x *ssa.Call, args []*Val) ([]*Val, *State) {
			u.reqNonNil(fr, st, x, args[0].T)
			salt := IntLit(0)
			hopt := IntLit(0)
			// opts may be nil
			opts := args[4].T
			si := u.eng.structByName("crypto/rsa.PSSOptions")
			if si != nil {
				salt = Ite(Eq(opts, NilAddr), IntLit(0), Select(u.comp(st, hcomp(SInt)), FieldAddrT(opts, 0)))
				hopt = Ite(Eq(opts, NilAddr), IntLit(0), Select(u.comp(st, hcomp(SInt)), FieldAddrT(opts, 1)))
			}
			_ = hopt
			r := App(SAny, "rsa_verify_pss", u.rsaPubAbs(st, args[0].T), args[1].T, u.bytesOf(st, args[2].T), u.bytesOf(st, args[3].T), salt)
			return one(u.define("rsa_res", r)), st
		})
	reg("encoding/asn1.Unmarshal", "on success the two *big.Int fields of the destination are fresh and non-nil", []string{"alloc", "BIG", "H:Addr"},
		func(u *Unit, fr *Frame, st *State, x *ssa.Call, args []*Val) ([]*Val, *State) {
			// destination: pointer to struct{R,S *big.Int} wrapped in an interface
			b := u.bytesOf(st, args[0].T)
			err := u.define("asn1_err", App(SAny, "asn1_err", b))
			mi, ok := x.Call.Args[1].(*ssa.MakeInterface)
			if !ok {
				panic("asn1.Unmarshal destination not a MakeInterface")
			}
			dst := u.operand(fr, mi.X).T
			r, s := MkAddr(u.newObj(st)), MkAddr(u.newObj(st))
			okc := Eq(err, AnyNil)
			H := u.comp(st, hcomp(SAddr))
			H2 := Store(Store(H, FieldAddrT(dst, 0), r), FieldAddrT(dst, 1), s)
			u.setComp(st, hcomp(SAddr), Ite(okc, H2, H))
			B := u.comp(st, "BIG")
			u.setComp(st, "BIG", Store(Store(B, r, App(SInt, "asn1_r", b)), s, App(SInt, "asn1_s", b)))
			rest := u.fresh("rest", SSlice)
			u.assume(st.pc, App(SBool, "slice_ok", rest, u.comp(st, "alloc")))
			return []*Val{{T: rest}, {T: err}}, st
		})
	for _, c := range []struct {
		name string
		bits int
	}{{"crypto/elliptic.P256", 256}, {"crypto/elliptic.P384", 384}, {"crypto/elliptic.P521", 521}} {
		cc := c
		reg(cc.name, fmt.Sprintf("a fixed non-nil curve value, distinct from the other two, with BitSize and order bit length %d", cc.bits), nil,
			func(u *Unit, fr *Frame, st *State, x *ssa.Call, args []*Val) ([]*Val, *State) {
				return one(Term{fmt.Sprintf("curve_p%d", cc.bits), SAny}), st
			})
	}

	// ---- reflect (only what key.go's typed accessors use) ----
	// reflect.ValueOf(x) is modelled as x itself: a reflect.Value is the interface value it was made from.
	reg("reflect.ValueOf", "the reflect.Value of an interface value is represented by that value", nil,
		func(u *Unit, fr *Frame, st *State, x *ssa.Call, args []*Val) ([]*Val, *State) {
			return one(u.reflectWrap(args[0].T)), st
		})
	kindTest := func(pred func(b *types.Basic) bool) func(u *Unit, v Term) Term {
		return func(u *Unit, v Term) Term {
			var ds []Term
			for _, c := range u.eng.reg.sortedAnyCons() {
				if b, ok := c.T.Underlying().(*types.Basic); ok && pred(b) {
					ds = append(ds, Term{fmt.Sprintf("((_ is %s) %s)", c.Con, v.S), SBool})
				}
			}
			return Or(ds...)
		}
	}
	kindVal := func(pred func(b *types.Basic) bool, sort Sort, zero Term) func(u *Unit, v Term) Term {
		return func(u *Unit, v Term) Term {
			t := zero
			for _, c := range u.eng.reg.sortedAnyCons() {
				if b, ok := c.T.Underlying().(*types.Basic); ok && pred(b) {
					t = Ite(Term{fmt.Sprintf("((_ is %s) %s)", c.Con, v.S), SBool}, App(sort, c.Sel, v), t)
				}
			}
			return t
		}
	}
	isStr := func(b *types.Basic) bool { return b.Info()&types.IsString != 0 }
	isBoolK := func(b *types.Basic) bool { return b.Info()&types.IsBoolean != 0 }
	reg("(reflect.Value).CanInt", "any_canint: the dynamic type's underlying type is a signed Go integer (named types included); for types the package never boxes an uninterpreted predicate of the type", nil,
		func(u *Unit, fr *Frame, st *State, x *ssa.Call, args []*Val) ([]*Val, *State) {
			return one(App(SBool, "any_canint", u.reflectUnwrap(args[0].T))), st
		})
	reg("(reflect.Value).CanUint", "any_canuint: the dynamic type's underlying type is an unsigned Go integer", nil,
		func(u *Unit, fr *Frame, st *State, x *ssa.Call, args []*Val) ([]*Val, *State) {
			return one(App(SBool, "any_canuint", u.reflectUnwrap(args[0].T))), st
		})
	reg("(reflect.Value).Int", "requires CanInt (panics otherwise); any_intval", nil,
		func(u *Unit, fr *Frame, st *State, x *ssa.Call, args []*Val) ([]*Val, *State) {
			v := u.reflectUnwrap(args[0].T)
			cond := App(SBool, "any_canint", v)
			u.panicObl(st, fr, x, "call", cond)
			u.assume(st.pc, cond)
			r := u.define("rint", App(SInt, "any_intval", v))
			u.assume(st.pc, InRange(r, types.Typ[types.Int64]))
			return one(r), st
		})
	reg("(reflect.Value).Uint", "requires CanUint (panics otherwise); any_uintval", nil,
		func(u *Unit, fr *Frame, st *State, x *ssa.Call, args []*Val) ([]*Val, *State) {
			v := u.reflectUnwrap(args[0].T)
			cond := App(SBool, "any_canuint", v)
			u.panicObl(st, fr, x, "call", cond)
			u.assume(st.pc, cond)
			r := u.define("ruint", App(SInt, "any_uintval", v))
			u.assume(st.pc, InRange(r, types.Typ[types.Uint64]))
			return one(r), st
		})
	reg("(reflect.Value).Kind", "the reflect.Kind of the dynamic type: String (24) / Bool (1) are pinned, every other kind is an uninterpreted function of the dynamic type that differs from those two", nil,
		func(u *Unit, fr *Frame, st *State, x *ssa.Call, args []*Val) ([]*Val, *State) {
			v := u.reflectUnwrap(args[0].T)
			k := u.fresh("kind", SInt)
			isS, isB := kindTest(isStr)(u, v), kindTest(isBoolK)(u, v)
			known := Not(Term{"((_ is A_other) " + v.S + ")", SBool})
			u.assume(st.pc, And(Le(IntLit(0), k), Le(k, IntLit(26)), Implies(isS, Eq(k, IntLit(24))), Implies(isB, Eq(k, IntLit(1))),
				Implies(And(known, Not(isS)), Neq(k, IntLit(24))), Implies(And(known, Not(isB)), Neq(k, IntLit(1))),
				Implies(Eq(v, AnyNil), Eq(k, IntLit(0)))))
			return one(k), st
		})
	reg("(reflect.Value).Bytes", "requires a byte-slice kind (any_isbytes) and panics otherwise; when the caller has deferred a recover(), the panic is followed into the recover path; the result is any_bytesval", nil,
		func(u *Unit, fr *Frame, st *State, x *ssa.Call, args []*Val) ([]*Val, *State) {
			v := u.reflectUnwrap(args[0].T)
			cond := u.define("isbytes", App(SBool, "any_isbytes", v))
			top := fr
			if len(top.defers) > 0 && top.fn.Recover != nil {
				ps := st.Clone()
				ps.pc = u.define("pc", And(st.pc, Not(cond)))
				top.panicStates = append(top.panicStates, ps)
				st.pc = u.define("pc", And(st.pc, cond))
			} else {
				u.panicObl(st, fr, x, "call", cond)
				u.assume(st.pc, cond)
			}
			r := u.define("rbytes", App(SSlice, "any_bytesval", v))
			u.assume(st.pc, App(SBool, "slice_ok", r, u.comp(st, "alloc")))
			return one(r), st
		})
	reg("(reflect.Value).String", "for Kind String the string value (otherwise a descriptive text)", nil,
		func(u *Unit, fr *Frame, st *State, x *ssa.Call, args []*Val) ([]*Val, *State) {
			v := u.reflectUnwrap(args[0].T)
			sv := kindVal(isStr, SStr, Term{"str_empty", SStr})(u, v)
			r := u.fresh("rstr", SStr)
			u.assume(st.pc, Implies(kindTest(isStr)(u, v), Eq(r, sv)))
			u.assume(st.pc, u.typeInv(r, types.Typ[types.String], u.comp(st, "alloc")))
			return one(r), st
		})
	reg("(reflect.Value).Bool", "requires Kind Bool (panics otherwise); the boolean value", nil,
		func(u *Unit, fr *Frame, st *State, x *ssa.Call, args []*Val) ([]*Val, *State) {
			v := u.reflectUnwrap(args[0].T)
			isB := kindTest(isBoolK)(u, v)
			r := u.fresh("rbool", SBool)
			u.assume(st.pc, Implies(isB, Eq(r, kindVal(isBoolK, SBool, False)(u, v))))
			return one(r), st
		})

	// ---- fxamacker/cbor option constructors ----
	reg("(github.com/fxamacker/cbor/v2.EncOptions).EncMode", "returns enc_mode_of(options); the error is nil exactly when enc_opts_valid(options) (assumed to hold for the options configured in init)", nil,
		func(u *Unit, fr *Frame, st *State, x *ssa.Call, args []*Val) ([]*Val, *State) {
			o := args[0].T
			u.eng.declareFun("enc_mode_of", []Sort{o.Sort}, SAny)
			u.eng.declareFun("enc_opts_valid", []Sort{o.Sort}, SBool)
			ok := Or(u.optsInRange(x.Call.Args[0].Type(), o), App(SBool, "enc_opts_valid", o))
			u.eng.declareFun("enc_opts_of", []Sort{SAny}, o.Sort)
			u.assume(True, Eq(App(o.Sort, "enc_opts_of", App(SAny, "enc_mode_of", o)), o))
			id := u.newObj(st)
			e := App(SAny, "A_other", IntLit(tidWrapError), id)
			mode := App(SAny, "enc_mode_of", o)
			u.assume(st.pc, Neq(mode, AnyNil))
			return []*Val{{T: u.define("encmode", Ite(ok, mode, AnyNil))}, {T: u.define("encerr", Ite(ok, AnyNil, e))}}, st
		})
	reg("(github.com/fxamacker/cbor/v2.DecOptions).DecMode", "returns dec_mode_of(options); the error is nil exactly when dec_opts_valid(options) (assumed to hold for the options configured in init)", nil,
		func(u *Unit, fr *Frame, st *State, x *ssa.Call, args []*Val) ([]*Val, *State) {
			o := args[0].T
			u.eng.declareFun("dec_mode_of", []Sort{o.Sort}, SAny)
			u.eng.declareFun("dec_opts_valid", []Sort{o.Sort}, SBool)
			ok := Or(u.optsInRange(x.Call.Args[0].Type(), o), App(SBool, "dec_opts_valid", o))
			u.eng.declareFun("dec_opts_of", []Sort{SAny}, o.Sort)
			u.assume(True, Eq(App(o.Sort, "dec_opts_of", App(SAny, "dec_mode_of", o)), o))
			id := u.newObj(st)
			e := App(SAny, "A_other", IntLit(tidWrapError), id)
			mode := App(SAny, "dec_mode_of", o)
			u.assume(st.pc, Neq(mode, AnyNil))
			return []*Val{{T: u.define("decmode", Ite(ok, mode, AnyNil))}, {T: u.define("decerr", Ite(ok, AnyNil, e))}}, st
		})
}

func (e *Engine) structByName(name string) *StructInfo {
	for _, si := range e.reg.structList {
		if si.Key == name {
			return si
		}
	}
	return nil
}

func (u *Unit) reqNonNil(fr *Frame, st *State, x *ssa.Call, p Term) {
	cond := Neq(App(SInt, "aobj", p), IntLit(0))
	u.panicObl(st, fr, x, "nilderef", cond)
	u.assume(st.pc, cond)
}

func (u *Unit) bumpEpoch(st *State) Term {
	e := u.comp(st, "epoch")
	u.setComp(st, "epoch", Add(e, IntLit(1)))
	return e
}

// verbIndex returns the operand index of the first verb %<v> in a format string.
func verbIndex(format string, v byte) int {
	idx := 0
	for i := 0; i < len(format); i++ {
		if format[i] != '%' {
			continue
		}
		i++
		if i >= len(format) {
			break
		}
		if format[i] == '%' {
			continue
		}
		// skip flags/width
		for i < len(format) && strings.ContainsRune("+-# 0123456789.", rune(format[i])) {
			i++
		}
		if i < len(format) {
			if format[i] == v {
				return idx
			}
			idx++
		}
	}
	return -1
}

// variadicElem reads element idx of a variadic []any argument in the current state.
func (u *Unit) variadicElem(fr *Frame, st *State, arg ssa.Value, idx int) (Term, bool) {
	v := u.operand(fr, arg)
	if v.T.Sort != SSlice {
		return Term{}, false
	}
	E := u.comp(st, ecomp(SAny))
	return Select(Select(E, SArr(v.T)), Add(SOff(v.T), IntLit(int64(idx)))), true
}

// constLen: the syntactic constant length of a slice value, if any.
func constLen(v ssa.Value) (int64, bool) {
	switch x := v.(type) {
	case *ssa.Slice:
		if pt, ok := x.X.Type().Underlying().(*types.Pointer); ok {
			if at, ok := pt.Elem().Underlying().(*types.Array); ok && x.Low == nil && x.High == nil {
				return at.Len(), true
			}
		}
	case *ssa.UnOp:
		if g, ok := x.X.(*ssa.Global); ok {
			if gi := theEngine.globals[g.Name()]; gi != nil && gi.HasBytes && g.Pkg == theEngine.pkg {
				return int64(len(gi.Bytes)), true
			}
		}
	case *ssa.ChangeType:
		return constLen(x.X)
	}
	return 0, false
}

var theEngine *Engine

// elementwiseEq: (len(a) == n or >= n) && a[i] == b[i] for i<n.
func (u *Unit) elementwiseEq(st *State, a, b Term, n int64, exact bool) Term {
	E := u.comp(st, ecomp(SInt))
	var cs []Term
	if exact {
		cs = append(cs, Eq(SLen(a), IntLit(n)))
	} else {
		cs = append(cs, Ge(SLen(a), IntLit(n)))
	}
	for i := int64(0); i < n; i++ {
		cs = append(cs, Eq(Select(Select(E, SArr(a)), Add(SOff(a), IntLit(i))), Select(Select(E, SArr(b)), Add(SOff(b), IntLit(i)))))
	}
	return And(cs...)
}

// bytesExt: extensionality instance for two byte sequences.
func bytesExt(a, b Term) Term {
	d := App(SInt, "bdiff", a, b)
	return Or(Eq(a, b), Neq(App(SInt, "blen", a), App(SInt, "blen", b)),
		And(Le(IntLit(0), d), Lt(d, App(SInt, "blen", a)), Neq(App(SInt, "bat", a, d), App(SInt, "bat", b, d))))
}

// key abstractions
func (u *Unit) ecdsaPubAbs(st *State, p Term) Term {
	// PublicKey{Curve elliptic.Curve; X, Y *big.Int}
	HA, HP, B := u.comp(st, hcomp(SAny)), u.comp(st, hcomp(SAddr)), u.comp(st, "BIG")
	return App("ECPub", "mk-ecpub", Select(HA, FieldAddrT(p, 0)), Select(B, Select(HP, FieldAddrT(p, 1))), Select(B, Select(HP, FieldAddrT(p, 2))))
}

func (u *Unit) ecdsaPrivAbs(st *State, p Term) Term {
	// PrivateKey{PublicKey; D *big.Int}
	HP, B := u.comp(st, hcomp(SAddr)), u.comp(st, "BIG")
	return App("ECPriv", "mk-ecpriv", u.ecdsaPubAbs(st, FieldAddrT(p, 0)), Select(B, Select(HP, FieldAddrT(p, 1))))
}

func (u *Unit) rsaPubAbs(st *State, p Term) Term {
	// PublicKey{N *big.Int; E int}
	HP, HI, B := u.comp(st, hcomp(SAddr)), u.comp(st, hcomp(SInt)), u.comp(st, "BIG")
	return App("RSAPub", "mk-rsapub", Select(B, Select(HP, FieldAddrT(p, 0))), Select(HI, FieldAddrT(p, 1)))
}

// optsInRange: a sufficient condition (read from fxamacker/cbor v2.5.0 encode.go / decode.go) for EncMode() / DecMode()
// to accept an options struct: every mode field is one of its first two enumerators (Sort: three, NaNConvert: four,
// Time: five, TimeTag: three for decoding), size limits are left at 0 (defaults), no default map type is set, and tags are
// not forbidden together with a required time tag.
func (u *Unit) optsInRange(t types.Type, o Term) Term {
	st, ok := t.Underlying().(*types.Struct)
	if !ok {
		return False
	}
	si := u.eng.reg.Struct(t)
	var cs []Term
	var tagsMd, timeTag Term
	for i := 0; i < st.NumFields(); i++ {
		f := st.Field(i)
		v := App(si.Fields[i].Sort, si.Fields[i].Sel, o)
		hi := int64(1)
		switch f.Name() {
		case "Sort":
			hi = 2
		case "NaNConvert":
			hi = 3
		case "Time":
			hi = 4
		case "TimeTag":
			hi = 1
			timeTag = v
		case "TagsMd":
			tagsMd = v
		case "MaxNestedLevels", "MaxArrayElements", "MaxMapPairs":
			hi = 0
		}
		switch si.Fields[i].Sort {
		case SInt:
			cs = append(cs, Le(IntLit(0), v), Le(v, IntLit(hi)))
		case SAny:
			cs = append(cs, Eq(v, AnyNil))
		default:
			return False
		}
	}
	if tagsMd.S != "" && timeTag.S != "" {
		cs = append(cs, Not(And(Eq(tagsMd, IntLit(1)), Eq(timeTag, IntLit(1)))))
	}
	return And(cs...)
}

// reflect.Value is a struct in the SSA; the model keeps the interface value in an uninterpreted wrapper.
func (u *Unit) reflectWrap(a Term) Term {
	rs := u.eng.reflectValueSort()
	u.eng.declareFun("reflect_of", []Sort{SAny}, rs)
	u.eng.declareFun("reflect_val", []Sort{rs}, SAny)
	w := App(rs, "reflect_of", a)
	u.assume(True, Eq(App(SAny, "reflect_val", w), a))
	return w
}

func (u *Unit) reflectUnwrap(w Term) Term {
	rs := u.eng.reflectValueSort()
	u.eng.declareFun("reflect_of", []Sort{SAny}, rs)
	u.eng.declareFun("reflect_val", []Sort{rs}, SAny)
	return App(SAny, "reflect_val", w)
}

func (e *Engine) reflectValueSort() Sort {
	for _, p := range e.allPackages() {
		if p.Path() == "reflect" {
			if o := p.Scope().Lookup("Value"); o != nil {
				return e.reg.SortOf(o.Type())
			}
		}
	}
	panic("reflect.Value not found")
}
