import json,jsonschema,glob,sys
jsonschema.validate(json.load(open('/verif/MANIFEST.json')), json.load(open('/root/.vp/MANIFEST.schema.json')))
for p in glob.glob('/verif/evidence/*.json'):
    jsonschema.validate(json.load(open(p)), json.load(open('/root/.vp/EVIDENCE.schema.json')))
print('valid')
