#!/bin/bash
# usage: verify_seed.sh <dir with patch.diff demo_test.go meta.json> <test name>
# Confirms in a scratch worktree of /repo HEAD: patch applies, suite passes with it, demo fails with it, demo passes without it.
export GOFLAGS=-mod=mod GOPROXY=off GOSUMDB=off GOTOOLCHAIN=local
d=$1; t=$2
wt=/root/scratch/seedwt.$$
git -C /repo worktree add --detach $wt HEAD -q || exit 9
trap 'git -C /repo worktree remove --force $wt >/dev/null 2>&1' EXIT
cd $wt
rm -f contracts_verif.go.orig
if ! git apply $d/patch.diff 2>/dev/null; then echo "RESULT $d patch-does-not-apply"; exit 1; fi
suite=$(go test -vet=off -count=1 ./... 2>&1 | tail -1)
cp $d/demo_test.go zz_seed_demo_test.go
with=$(go test -vet=off -count=1 -run "^$t\$" . 2>&1 | tail -1)
git apply -R $d/patch.diff
without=$(go test -vet=off -count=1 -run "^$t\$" . 2>&1 | tail -1)
rm -f zz_seed_demo_test.go
echo "RESULT $d suite=[$suite] with=[$with] without=[$without]"
