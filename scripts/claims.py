claim("C16",
      "Postconditions of I2OSP, encodeECDSASignature, decodeECDSASignature, both ECDSA SignDigest/Sign bodies and ecdsaVerifier.VerifyDigest are proved for all curves (symbolic order length n), all r, s, all byte strings: output is exactly bebytes(r,n)||bebytes(s,n) of length 2n or an error with nil bytes; the verifier returns nil iff len(sig)==2n and ecdsa.Verify holds on (be(sig[:n]), be(sig[n:])), any other length gives ErrVerification. Both signing paths meet the same form clause, which is their byte compatibility.",
      "big.Int Sign/BitLen/FillBytes/SetBytes, asn1.Unmarshal, ecdsa.Sign/Verify and elliptic.Curve.Params are assumed contracts; whether a 2n-byte string that is also DER verifies is a question about ecdsa.Verify, outside.",
      "DESIGN.md section 5 (C16)")
claim("C17",
      "Iff-postconditions of NewSigner / NewVerifier over the whole int64 algorithm space and every dynamic key type (symbolic switch, including the default arm), the returned object's algorithm and key fields, the error classes, the algorithm-to-hash table, and Sign == SignDigest o hash / Verify == VerifyDigest o hash for the ECDSA and RSA families (each pair is proved equal to the same term over the uninterpreted primitives with the single hash hashid(alg)).",
      "crypto.Signer.Public/Sign, (*ecdsa.PublicKey).ECDH, rsa.VerifyPSS, ed25519.Verify, crypto.Hash.Available/New and hash.Hash.Write/Sum are assumed (uninterpreted) contracts; that a matching key pair verifies is a cryptographic assumption not used by this check.",
      "DESIGN.md section 5 (C17)")
