#!/bin/bash
# Attribution check: applies a seeded change to a scratch worktree and runs the checks of ALL twenty properties against it
# (fast mode: only the functions whose SSA differs). Prints which checks report a violation, so that a check alarming for a
# property the change does not break (an over-wide tag) can be found. usage: crosscheck.sh name ...
export GOFLAGS=-mod=mod GOPROXY=off GOSUMDB=off GOTOOLCHAIN=local
cd /verif
base=/root/scratch/cross.base.$$; mkdir -p /root/scratch
bin/govc hashes > $base || exit 2
for n in "$@"; do
  wt=/root/scratch/cross.$n
  rm -rf $wt; git -C /repo worktree prune
  git -C /repo worktree add --detach $wt HEAD -q || continue
  git -C $wt apply /verif/seeded/$n/patch.diff 2>/dev/null || { echo "$n patch-does-not-apply"; git -C /repo worktree remove --force $wt; continue; }
  changed=$(bin/govc hashes -repo $wt | sort | comm -13 <(sort $base) - | cut -d' ' -f2- | paste -sd, -)
  alarms=""; silent=""; undec=""
  for i in $(seq -w 1 20); do
    q=C$i
    out=$(bin/govc check --property $q --repo $wt --out $wt/_verif_out -j 4 -timeout 15s -only "$changed" 2>&1); st=$?
    if echo "$out" | grep -q '^VIOLATION'; then
      first=$(echo "$out" | grep '^VIOLATION' | head -1 | sed 's/.*obligation=//' | cut -d' ' -f1)
      alarms="$alarms $q($first)"
    elif [ $st -eq 0 ] || echo "$out" | grep -q 'no obligations generated'; then silent="$silent $q"; else undec="$undec $q"; fi
  done
  echo "$n changed=[$changed] ALARMS:$alarms UNDECIDED:$undec"
  git -C /repo worktree remove --force $wt
done
rm -f $base
