#!/bin/bash
# Must-not-alarm corpus: applies each behaviour-preserving change (seeded/_equivalent/<name>/patch.diff) to a scratch worktree of
# /repo HEAD, confirms that the unedited test suite passes with it, and runs the check of the property named in its meta.json
# (fast mode of selftest.sh: only the functions whose SSA differs; -full for the complete check). The check must NOT print a
# VIOLATION line: exit 0 (SILENT) is the expected outcome, exit 2 (UNDECIDED: contract names a loop/variable/call site that the
# refactoring removed) is tolerated and reported, exit 1 is a FALSE-ALARM.
# usage: equivtest.sh [-full] [name ...]
export GOFLAGS=-mod=mod GOPROXY=off GOSUMDB=off GOTOOLCHAIN=local
cd /verif
full=0; [ "$1" = "-full" ] && { full=1; shift; }
names="$@"; [ -z "$names" ] && names=$(ls seeded/_equivalent)
base=/root/scratch/equiv.base.$$; mkdir -p /root/scratch
bin/govc hashes > $base || exit 2
rc=0
for n in $names; do
  d=/verif/seeded/_equivalent/$n
  prop=$(python3 -c "import json;print(json.load(open('$d/meta.json'))['property'])")
  wt=/root/scratch/equiv.$n
  rm -rf $wt; git -C /repo worktree prune
  git -C /repo worktree add --detach $wt HEAD -q || { echo "$n worktree-failed"; rc=2; continue; }
  if ! git -C $wt apply $d/patch.diff 2>/dev/null; then echo "$n patch-does-not-apply"; rc=2; git -C /repo worktree remove --force $wt; continue; fi
  suite=$(cd $wt && go test -vet=off -count=1 ./... 2>&1 | tail -1 | cut -c1-40)
  only=""
  if [ $full -eq 0 ]; then
    changed=$(bin/govc hashes -repo $wt | sort | comm -13 <(sort $base) - | cut -d' ' -f2- | paste -sd, -)
    [ -n "$changed" ] && only="-only $changed"
  fi
  out=$(bin/govc check --property $prop --repo $wt --out $wt/_verif_out $only 2>&1); st=$?
  v=$(echo "$out" | grep -c '^VIOLATION')
  if [ $v -gt 0 ] || [ $st -eq 1 ]; then echo "$n FALSE-ALARM by $prop: $(echo "$out" | grep '^VIOLATION' | head -2 | cut -c1-200) [suite: $suite]"; rc=1
  elif [ $st -eq 0 ]; then echo "$n SILENT ($prop; changed: $changed) $(echo "$out" | tail -1 | cut -c1-100) [suite: $suite]"
  else echo "$n UNDECIDED by $prop (exit $st): $(echo "$out" | grep -v '^WARN' | head -2 | cut -c1-200) [suite: $suite]"; fi
  git -C /repo worktree remove --force $wt
done
rm -f $base
exit $rc
