#!/bin/bash
# Must-fail corpus: applies each seeded change (seeded/<prop>_<n>/patch.diff) to a scratch worktree of /repo HEAD and runs the
# check of the property it breaks against that worktree. Every change must make its check exit 1 with a VIOLATION line.
#
# usage: selftest.sh [-full] [-P n] [name ...]   (default: all changes, fast mode, 4 at a time)
#   fast mode (default): only the obligations of the functions whose SSA (own body or inlined callees) differs from /repo HEAD
#                        are discharged (govc hashes / govc check -only). Verification is modular, so the obligations of every
#                        other function are the ones that already pass on the unchanged tree.
#   -full              : the complete check of the property, exactly as registered in MANIFEST.json, against the changed tree.
# Output: one line per change; exit 0 iff all were detected.
export GOFLAGS=-mod=mod GOPROXY=off GOSUMDB=off GOTOOLCHAIN=local
cd /verif
full=0; par=4
while [ $# -gt 0 ]; do case "$1" in -full) full=1; shift;; -P) par=$2; shift 2;; *) break;; esac; done
names="$@"; [ -z "$names" ] && names=$(ls seeded | grep -E '^C[0-9]+_[0-9]+$')
mkdir -p /root/scratch
base=/root/scratch/selftest.base.$$
bin/govc hashes > $base || exit 2
one() {
  n=$1; prop=${n%%_*}
  wt=/root/scratch/selftest.$n
  rm -rf $wt; git -C /repo worktree prune
  git -C /repo worktree add --detach $wt HEAD -q || { echo "$n worktree-failed"; return; }
  if ! git -C $wt apply /verif/seeded/$n/patch.diff 2>/dev/null; then echo "$n patch-does-not-apply"; git -C /repo worktree remove --force $wt; return; fi
  only=""
  if [ $full -eq 0 ]; then
    changed=$(bin/govc hashes -repo $wt | sort | comm -13 <(sort $base) - | cut -d' ' -f2- | paste -sd, -)
    if [ -z "$changed" ]; then echo "$n MISSED by $prop (no function body differs in SSA)"; git -C /repo worktree remove --force $wt; return; fi
    only="-only $changed"
  fi
  out=$(bin/govc check --property $prop --repo $wt --out $wt/_verif_out -j $jobs -timeout ${SELFTEST_TIMEOUT:-15s} $only 2>&1); st=$?
  v=$(echo "$out" | grep -c '^VIOLATION')
  first=$(echo "$out" | grep '^VIOLATION' | head -1 | sed 's/.*obligation=//' | cut -c1-90)
  if [ $st -eq 1 ] && [ $v -gt 0 ]; then echo "$n DETECTED by $prop ($v obligations; first: $first)"; else echo "$n MISSED by $prop (exit $st; changed: $changed) $(echo "$out" | tail -1 | cut -c1-120)"; fi
  git -C /repo worktree remove --force $wt
}
export -f one; export full base
if [ $full -eq 1 ]; then export jobs=14; par=1; else export jobs=$((16 / par)); fi
echo $names | tr ' ' '\n' | xargs -P $par -I{} bash -c 'one {}' | tee /root/scratch/selftest.out.$$
rc=0; grep -q "MISSED\|failed\|does-not-apply" /root/scratch/selftest.out.$$ && rc=1
rm -f $base /root/scratch/selftest.out.$$
exit $rc
