#!/bin/bash
# Must-fail corpus: applies each seeded change (seeded/<prop>_<n>/patch.diff) to a scratch worktree of /repo HEAD and runs the
# check of the property it breaks against that worktree. Every change must make its check exit 1 with a VIOLATION line.
# usage: selftest.sh [name ...]   (default: all)    Output: one line per change; exit 0 iff all were detected.
export GOFLAGS=-mod=mod GOPROXY=off GOSUMDB=off GOTOOLCHAIN=local
cd /verif
names="$@"; [ -z "$names" ] && names=$(ls seeded | grep -E '^C[0-9]+_[0-9]+$')
rc=0
for n in $names; do
  prop=${n%%_*}
  wt=/root/scratch/selftest.$n
  rm -rf $wt; git -C /repo worktree prune
  git -C /repo worktree add --detach $wt HEAD -q || { echo "$n worktree-failed"; rc=2; continue; }
  if ! git -C $wt apply /verif/seeded/$n/patch.diff 2>/dev/null; then echo "$n patch-does-not-apply"; rc=2; git -C /repo worktree remove --force $wt; continue; fi
  out=$(bin/govc check --property $prop --repo $wt --out $wt/_verif_out 2>&1); st=$?
  v=$(echo "$out" | grep -c '^VIOLATION')
  first=$(echo "$out" | grep '^VIOLATION' | head -1 | sed 's/.*obligation=//' | cut -c1-90)
  if [ $st -eq 1 ] && [ $v -gt 0 ]; then echo "$n DETECTED by $prop ($v obligations; first: $first)"; else echo "$n MISSED by $prop (exit $st) $(echo "$out" | tail -1 | cut -c1-120)"; rc=1; fi
  git -C /repo worktree remove --force $wt
done
exit $rc
