#!/bin/bash
# usage: mutant.sh <patch> <govc args...>   -- applies a patch to /repo, runs govc, reverts the patch (never uses checkout)
export GOFLAGS=-mod=mod GOPROXY=off GOSUMDB=off GOTOOLCHAIN=local
p=$1; shift
git -C /repo apply "$p" || exit 3
(cd /verif && bin/govc "$@" 2>&1 | grep -v conda)
rc=$?
git -C /repo apply -R "$p"
git -C /repo status --short
exit $rc
