#!/bin/bash
# per-function zero-annotation sweep with timing (development aid)
export GOFLAGS=-mod=mod GOPROXY=off GOSUMDB=off GOTOOLCHAIN=local
cd /verif
bin/govc list | sed -E 's/^..//; s/ \([0-9]+ blocks\)$//' > /tmp/fns.txt
while IFS= read -r f; do
  s=$(date +%s.%N)
  out=$(timeout 180 bin/govc fn -fn "$f" -panics -timeout 5s -j 12 2>&1 | grep -v conda | tail -1)
  e=$(date +%s.%N)
  printf "%6.1f %s :: %s\n" $(echo "$e - $s" | bc) "$f" "$out"
done < /tmp/fns.txt
