#!/bin/bash
# runs every registered quick (or thorough) check in turn against /repo and prints one line per property
# usage: run_all.sh [quick|thorough] [first property number]; OUT=<dir> writes evidence/replays there instead of /verif
cd /verif
tier=${1:-quick}
for i in $(seq -w ${2:-1} 20); do
  p=C$i; t0=$(date +%s)
  out=$(bin/govc check --property $p --tier $tier ${OUT:+-out $OUT} 2>&1); st=$?
  echo "$p exit=$st $(( $(date +%s) - t0 ))s $(echo "$out" | grep -c '^VIOLATION') violations; $(echo "$out" | grep -v '^WARN' | tail -1 | cut -c1-150)"
  echo "$out" | grep '^VIOLATION\|^NOTE\|^KNOWN\|MACHINERY\|ERROR' | head -5
done
