#!/usr/bin/env python3
"""Regenerates /verif/MANIFEST.json from the table below (kept in one place so the
claimed / not-applicable lists cannot drift apart)."""
import json, subprocess, os

ALL = ["C%02d" % i for i in range(1, 21)]

# property -> (level text, level note, design section)
CLAIMED = {
}

def claim(pid, text, note, ref, technique="contract-based deductive verification: VCs generated from go/ssa of /repo against contracts in /repo/contracts_verif.go, discharged by z3 4.8.12 / z3 5.1.0 / cvc5 1.0"):
    CLAIMED[pid] = dict(text=text, note=note, ref=ref, technique=technique)

COMMON_NOTE = ("Trusted: the x/tools go/ssa builder, the govc VC generator (symbolic executor, heap/slice/map/interface model), the SMT solvers; "
               "assumed (not proved) contracts of every callee outside /repo (fxamacker/cbor, crypto/*, math/big, fmt, errors) as listed in the evidence file under trusted_base. ")

exec(open(os.path.join(os.path.dirname(__file__), "claims.py")).read())

NA_REASONS = json.load(open(os.path.join(os.path.dirname(__file__), "not_applicable.json")))

def repo_hook_commits():
    try:
        out = subprocess.check_output(["git", "-C", "/repo", "log", "--format=%H %s"], text=True)
    except Exception:
        return []
    return [l.split()[0] for l in out.splitlines() if " verif:" in " " + l]

checks = []
for pid in ALL:
    if pid not in CLAIMED:
        continue
    c = CLAIMED[pid]
    checks.append({
        "property_id": pid,
        "quick_cmd": "bin/govc check --property %s --tier quick" % pid,
        "thorough_cmd": "bin/govc check --property %s --tier thorough" % pid,
        "evidence_file": "/verif/evidence/%s.json" % pid,
        "replay_cmd_template": "bin/govc replay {path}",
        "engine": "govc",
        "level_claimed": {"category": "proof", "text": c["text"], "design_ref": c["ref"]},
        "level_note": COMMON_NOTE + c["note"],
        "technique": c["technique"],
    })

na = []
for pid in ALL:
    if pid in CLAIMED:
        continue
    na.append({"property_id": pid, "reason": NA_REASONS.get(pid, "no contract-based check built for this property yet (see DESIGN.md section 9)")})

m = {
    "version": 1,
    "setup_cmd": "cd engine && GOFLAGS=-mod=vendor GOPROXY=off GOSUMDB=off GOTOOLCHAIN=local go build -o ../bin/govc ./cmd/govc",
    "hooks": {
        "guard": "verif",
        "enable": "two add-only files, both with first line //go:build verif: /repo/contracts_verif.go (comment-only: the contracts) and /repo/lemmas_verif.go (proof harnesses: small functions that compose library entry points as a caller would, whose contracts state end-to-end lemmas); govc loads /repo with -tags verif; without the tag neither file is compiled and no library file is touched",
        "baseline_off_cmd": "cd /repo && GOFLAGS=-mod=mod GOPROXY=off GOSUMDB=off go test -vet=off -count=1 ./...",
        "source_commits": repo_hook_commits(),
        "add_only": True,
    },
    "engines": [{
        "name": "govc",
        "path": "engine",
        "serves_properties": sorted(CLAIMED),
        "kind_free_text": "self-written verification-condition generator for Go over go/ssa (x/tools v0.29.0, vendored) + SMT back ends z3 4.8.12, z3 5.1.0 (z3-new), cvc5 1.0; contracts as //@ comments in /repo/contracts_verif.go",
    }],
    "checks": checks,
    "not_applicable": na,
    "notes": "exit 0 = every obligation in the property's dependency cone discharged (KNOWN-FINDING lines allowed); exit 1 = VIOLATION line(s); exit 2 = machinery error (stale contract, construct outside the modelled subset, solver missing), never accompanied by a VIOLATION line. See DESIGN.md.",
}
json.dump(m, open("/verif/MANIFEST.json", "w"), indent=1)
print("claimed:", sorted(CLAIMED), "not applicable:", [x["property_id"] for x in na])
