#!/usr/bin/env python3
"""addtag.py TAG func:label [func:label ...] -- add a property tag to clauses in /repo/contracts_verif.go
(label may be * for all tagged ensures/invariant clauses of the function)"""
import re,sys
tag=sys.argv[1]
targets={}
for a in sys.argv[2:]:
    f,l=a.rsplit(':',1)
    targets.setdefault(f,set()).add(l)
lines=open('/repo/contracts_verif.go').read().split('\n')
cur=None
n=0
for i,ln in enumerate(lines):
    m=re.match(r'^//@ func (.*)$',ln.strip())
    if m: cur=m.group(1).strip(); continue
    if cur in targets:
        m=re.match(r'^(//@\s+(?:requires|ensures|modifies|callsite|loop \d+ invariant)\s+)([A-Za-z_][A-Za-z0-9_]*)(\s*)(\[([A-Z0-9, ]*)\])?(.*)$',ln)
        if m and (m.group(2) in targets[cur] or '*' in targets[cur]):
            tags=[t.strip() for t in (m.group(5) or '').split(',') if t.strip()]
            if m.group(4) is None:
                if '*' in targets[cur] and m.group(2) not in targets[cur]:
                    continue  # untagged clauses are visible everywhere already
                continue
            if tag not in tags:
                tags.append(tag); tags.sort()
                lines[i]=m.group(1)+m.group(2)+' ['+', '.join(tags)+']'+m.group(6)
                n+=1
open('/repo/contracts_verif.go','w').write('\n'.join(lines))
print('updated',n,'clauses')
